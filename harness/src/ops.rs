//! Client-boundary operation language: every API call a history makes is an `Op`
//! (serialisable, so a replay file is just a list of them), generated from a seeded
//! PRNG against the *current* state of the model.

use ironcalc_base::cf_types::CfRuleInput;
use ironcalc_base::expressions::types::Area;
use ironcalc_base::types::*;
use ironcalc_base::{BorderArea, UserModel};
use rand::rngs::StdRng;
use rand::Rng;
use serde::{Deserialize, Serialize};
use std::collections::BTreeSet;

#[derive(Debug, Clone, Serialize, Deserialize, PartialEq)]
pub enum Op {
    Input(u32, i32, i32, String),
    ArrayFormula(u32, i32, i32, i32, i32, String),
    ClearContents(u32, i32, i32, i32, i32),
    ClearAll(u32, i32, i32, i32, i32),
    ClearFormatting(u32, i32, i32, i32, i32),
    InsertRows(u32, i32, i32),
    DeleteRows(u32, i32, i32),
    InsertCols(u32, i32, i32),
    DeleteCols(u32, i32, i32),
    MoveRows(u32, i32, i32, i32),
    MoveCols(u32, i32, i32, i32),
    ColWidth(u32, i32, i32, f64),
    RowHeight(u32, i32, i32, f64),
    ColHidden(u32, i32, i32, bool),
    RowHidden(u32, i32, i32, bool),
    Style(u32, i32, i32, i32, i32, String, String),
    Border(u32, i32, i32, i32, i32, String),
    NewSheet,
    DeleteSheet(u32),
    RenameSheet(u32, String),
    DuplicateSheet(u32),
    MoveSheet(u32, u32),
    HideSheet(u32),
    UnhideSheet(u32),
    SheetColor(u32, String),
    FrozenRows(u32, i32),
    FrozenCols(u32, i32),
    GridLines(u32, bool),
    NewName(String, Option<u32>, String),
    UpdateName(String, Option<u32>, String, Option<u32>, String),
    DeleteName(String, Option<u32>),
    SetLink(u32, i32, i32, String, Option<String>),
    SetInternalLink(u32, i32, i32, String),
    DeleteLink(u32, i32, i32),
    PasteCsv(u32, i32, i32, String),
    CopyPaste(u32, i32, i32, i32, i32, u32, i32, i32, bool),
    PasteStyles(u32, i32, i32, i32, i32, u32, i32, i32),
    AutoFillRows(u32, i32, i32, i32, i32, i32),
    AutoFillCols(u32, i32, i32, i32, i32, i32),
    SetName(String),
    SetLocale(String),
    SetTimezone(String),
    SetLanguage(String),
    SetTheme(String),
    CreateNamedStyle(String, String, bool),
    UpdateNamedStyle(String, String, String),
    DeleteNamedStyle(String),
    ApplyNamedStyle(u32, i32, i32, i32, i32, String),
    AddCf(u32, String, String),
    UpdateCf(u32, u32, String, String),
    DeleteCf(u32, u32),
    RaiseCf(u32, u32),
    LowerCf(u32, u32),
    SelectSheet(u32),
    SelectCell(i32, i32),
    SelectRange(i32, i32, i32, i32),
    Key(String),
    ExpandSel(String),
    AreaSelecting(i32, i32),
    NavEdge(String),
    Window(f64, f64),
    TopLeft(i32, i32),
    Undo,
    Redo,
    Evaluate,
    PauseEval,
    ResumeEval,
    /// harness pseudo-op: flush the outgoing queue and apply it on the replica
    Flush,
    /// harness pseudo-op: to_bytes/from_bytes comparison point
    Reload,
}

#[derive(Clone, Debug)]
pub struct GenCfg {
    pub rows: i32,
    pub cols: i32,
    /// generator switches that make the trigger of a committed known finding impossible
    pub avoid: BTreeSet<String>,
    /// include selection / navigation operations
    pub view_ops: bool,
    /// include operations at the grid edges
    pub edges: bool,
}

impl GenCfg {
    pub fn new(avoid: &[&str]) -> GenCfg {
        GenCfg {
            rows: 8,
            cols: 6,
            avoid: avoid.iter().map(|s| s.to_string()).collect(),
            view_ops: false,
            edges: !avoid.contains(&"edges"),
        }
    }
    pub fn avoids(&self, k: &str) -> bool {
        self.avoid.contains(k)
    }
}

fn colname(c: i32) -> String {
    crate::util::col_name(c)
}

fn sheet_names(um: &UserModel) -> Vec<String> {
    um.get_model()
        .workbook
        .worksheets
        .iter()
        .map(|w| w.name.clone())
        .collect()
}

fn quote_if_needed(name: &str) -> String {
    if name.chars().all(|c| c.is_ascii_alphanumeric()) && !name.is_empty() {
        name.to_string()
    } else {
        format!("'{}'", name.replace('\'', "''"))
    }
}

fn cellref(rng: &mut StdRng, cfg: &GenCfg, sheets: &[String]) -> String {
    let col = colname(rng.gen_range(1..=cfg.cols));
    let row = rng.gen_range(1..=cfg.rows);
    let d1 = if rng.gen_bool(0.2) { "$" } else { "" };
    let d2 = if rng.gen_bool(0.2) { "$" } else { "" };
    let sheet = if sheets.len() > 1 && rng.gen_bool(0.2) {
        format!(
            "{}!",
            quote_if_needed(&sheets[rng.gen_range(0..sheets.len())])
        )
    } else {
        "".into()
    };
    format!("{sheet}{d1}{col}{d2}{row}")
}

pub fn range_text(rng: &mut StdRng, cfg: &GenCfg) -> String {
    let c1 = rng.gen_range(1..=cfg.cols);
    let c2 = rng.gen_range(c1..=cfg.cols);
    let r1 = rng.gen_range(1..=cfg.rows);
    let r2 = rng.gen_range(r1..=cfg.rows);
    anchored_range(rng, r1, c1, r2, c2)
}

/// A1:B2 with independent `$` markers on the four coordinates (mixed anchoring included)
fn anchored_range(rng: &mut StdRng, r1: i32, c1: i32, r2: i32, c2: i32) -> String {
    let mut d = || if rng.gen_bool(0.2) { "$" } else { "" };
    let (a, b, c, e) = (d(), d(), d(), d());
    format!("{a}{}{b}{}:{c}{}{e}{}", colname(c1), r1, colname(c2), r2)
}

/// A formula that only reads cells in rows above `row` on its own sheet: no cycle is
/// possible among formulas generated this way, whatever order they are entered in.
pub fn acyclic_formula(rng: &mut StdRng, cfg: &GenCfg, row: i32) -> String {
    if row <= 1 {
        return format!("={}+{}", rng.gen_range(1..9), rng.gen_range(1..9));
    }
    let top = row - 1;
    let mut cell = |rng: &mut StdRng| {
        let (d1, d2) = (if rng.gen_bool(0.2) { "$" } else { "" }, if rng.gen_bool(0.2) { "$" } else { "" });
        format!("{d1}{}{d2}{}", colname(rng.gen_range(1..=cfg.cols)), rng.gen_range(1..=top))
    };
    let range = |rng: &mut StdRng| {
        let c1 = rng.gen_range(1..=cfg.cols);
        let c2 = rng.gen_range(c1..=cfg.cols);
        let r1 = rng.gen_range(1..=top);
        let r2 = rng.gen_range(r1..=top);
        anchored_range(rng, r1, c1, r2, c2)
    };
    match rng.gen_range(0..8) {
        0 => format!("={}+{}", cell(rng), cell(rng)),
        1 => format!("=SUM({})", range(rng)),
        // (`*1`: an IF that returns a bare reference to an empty cell gets an evaluation-order
        // dependent value in this engine; that is C05/C07's subject, not the structure engine's)
        2 => format!("=IF({}>2,{}*1,\"x\")", cell(rng), cell(rng)),
        3 => format!("=COUNT({})+1.5", range(rng)),
        4 => format!("=({})&\"-\"&({})", cell(rng), cell(rng)),
        5 => format!("=MAX({},{})", range(rng), cell(rng)),
        6 => format!("=-({})*2", cell(rng)),
        _ => format!("=AVERAGE({})", range(rng)),
    }
}

pub fn formula(rng: &mut StdRng, cfg: &GenCfg, sheets: &[String], depth: u32) -> String {
    if depth == 0 || rng.gen_bool(0.3) {
        return match rng.gen_range(0..7) {
            0 => format!("{}", rng.gen_range(-5..20)),
            1 => "\"x\"".into(),
            2 => "TRUE".into(),
            3 => "1.5".into(),
            _ => cellref(rng, cfg, sheets),
        };
    }
    let a = formula(rng, cfg, sheets, depth - 1);
    let b = formula(rng, cfg, sheets, depth - 1);
    match rng.gen_range(0..16) {
        0 => format!("{a}+{b}"),
        1 => format!("{a}-({b})"),
        2 => format!("({a})*({b})"),
        3 => format!("({a})/({b})"),
        4 => format!("({a})&({b})"),
        5 => format!("SUM({})", range_text(rng, cfg)),
        6 => format!("IF(({a})>({b}),{a},{b})"),
        7 => format!("COUNT({})", range_text(rng, cfg)),
        8 => format!("MAX({},{a})", range_text(rng, cfg)),
        9 => format!("-({a})"),
        10 => format!("IFERROR({a},{b})"),
        11 => format!("SUM({})*2", range_text(rng, cfg)),
        12 => {
            if cfg.avoids("names_in_formulas") {
                format!("{a}+1")
            } else {
                format!("myname+({a})")
            }
        }
        13 => format!("SUM({}:{})", rng.gen_range(1..=cfg.rows), rng.gen_range(1..=cfg.rows)),
        14 => format!("COUNTA({0}:{0})", colname(rng.gen_range(1..=cfg.cols))),
        _ => format!("AVERAGE({})", range_text(rng, cfg)),
    }
}

pub fn value(rng: &mut StdRng, cfg: &GenCfg, sheets: &[String]) -> String {
    let plain_only = cfg.avoids("typed_format");
    loop {
        let k = rng.gen_range(0..30);
        let v: String = match k {
            0 => "".into(),
            1 => format!("{}", rng.gen_range(-100..1000)),
            2 => format!("{:.3}", rng.gen_range(-100.0..1000.0)),
            3 => "hello".into(),
            4 => {
                if plain_only {
                    continue;
                }
                "'123".into()
            }
            5 => "TRUE".into(),
            6 => {
                if plain_only {
                    continue;
                }
                "10%".into()
            }
            7 => {
                if plain_only {
                    continue;
                }
                "$5.50".into()
            }
            8 => {
                if plain_only {
                    continue;
                }
                "2024-03-05".into()
            }
            9 => {
                if plain_only {
                    continue;
                }
                "1,234".into()
            }
            10 => {
                if plain_only {
                    continue;
                }
                "1e3".into()
            }
            11 => "#N/A".into(),
            12 => {
                if cfg.avoids("auto_links") {
                    continue;
                }
                "https://example.com".into()
            }
            13 => "a\nb".into(),
            14 | 15 => {
                if cfg.avoids("dyn_arrays") {
                    continue;
                }
                match rng.gen_range(0..4) {
                    0 => format!("={}", range_text(rng, cfg)),
                    1 => "=SEQUENCE(2,2)".into(),
                    2 => format!("={}*2", range_text(rng, cfg)),
                    _ => format!("=SEQUENCE({},{})", cellref(rng, cfg, &[]), rng.gen_range(1..3)),
                }
            }
            16 => "0.1".into(),
            17 => "123456789012".into(),
            18 => " padded ".into(),
            _ => format!("={}", formula(rng, cfg, sheets, 2)),
        };
        return v;
    }
}

const STYLE_PATHS: &[(&str, &[&str])] = &[
    ("font.b", &["true", "false"]),
    ("font.i", &["true", "false"]),
    ("font.u", &["true", "false"]),
    ("font.strike", &["true", "false"]),
    ("fill.color", &["#FF0000", "#00FF7F", ""]),
    ("num_fmt", &["0.00", "general", "#,##0", "0%", "yyyy-mm-dd"]),
    ("alignment.horizontal", &["center", "left", "right", "general"]),
    ("alignment.vertical", &["center", "top", "bottom"]),
    ("alignment.wrap_text", &["true", "false"]),
    ("font.size", &["14", "9"]),
    ("font.color", &["#00FF00", "#123456"]),
];

fn border_json(rng: &mut StdRng) -> String {
    let ty = *crate::util::pick(
        rng,
        &[
            "All", "Inner", "Outer", "Top", "Right", "Bottom", "Left", "CenterH", "CenterV",
            "None",
        ],
    );
    let style = *crate::util::pick(rng, &["thin", "medium", "thick", "double", "dotted"]);
    let color = *crate::util::pick(rng, &["#000000", "#FF0000"]);
    format!(r##"{{"item":{{"style":"{style}","color":"{color}"}},"type":"{ty}"}}"##)
}

fn cf_rule_json(rng: &mut StdRng, cfg: &GenCfg) -> String {
    let fmt = r##"{"font":{"b":true,"color":"#FF0000"},"fill":null,"border":null,"num_fmt":null,"alignment":null}"##;
    match rng.gen_range(0..5) {
        0 => format!(
            r##"{{"type":"CellIs","operator":"GreaterThan","formula":"{}","formula2":null,"format":{fmt},"stop_if_true":false}}"##,
            rng.gen_range(0..10)
        ),
        1 => format!(
            r##"{{"type":"Formula","formula":"{}{}>3","format":{fmt},"stop_if_true":{}}}"##,
            colname(rng.gen_range(1..=cfg.cols)),
            rng.gen_range(1..=cfg.rows),
            rng.gen_bool(0.5)
        ),
        2 => format!(
            r##"{{"type":"Text","operator":"Contains","value":"x","format":{fmt},"stop_if_true":false}}"##
        ),
        3 => format!(r##"{{"type":"DuplicateValues","format":{fmt},"stop_if_true":false}}"##),
        _ => format!(
            r##"{{"type":"CellIs","operator":"Between","formula":"1","formula2":"{}$1","format":{fmt},"stop_if_true":false}}"##,
            colname(rng.gen_range(1..=cfg.cols))
        ),
    }
}

fn named_style_json(rng: &mut StdRng) -> String {
    let mut st = Style::default();
    match rng.gen_range(0..4) {
        0 => st.font.b = true,
        1 => st.num_fmt = "0.000".to_string(),
        2 => st.font.i = true,
        _ => {
            st.font.b = true;
            st.font.sz = 15
        }
    }
    serde_json::to_string(&st).unwrap()
}

pub fn gen_op(rng: &mut StdRng, um: &UserModel, cfg: &GenCfg) -> Op {
    let sheets = sheet_names(um);
    let n = sheets.len() as u32;
    let sh = rng.gen_range(0..n);
    let mut row = rng.gen_range(1..=cfg.rows);
    let mut col = rng.gen_range(1..=cfg.cols);
    if cfg.edges && rng.gen_bool(0.02) {
        row = *crate::util::pick(rng, &[1, 1048576, 1048575]);
    }
    if cfg.edges && rng.gen_bool(0.02) {
        col = *crate::util::pick(rng, &[1, 16384, 16383]);
    }
    let w = rng.gen_range(1..=3);
    let h = rng.gen_range(1..=3);
    let names = ["myname", "other", "local"];
    if cfg.view_ops && rng.gen_bool(0.2) {
        // selection workloads: sheet-level operations at every index relative to the selection
        return match rng.gen_range(0..8) {
            0 => Op::NewSheet,
            1 => Op::DeleteSheet(sh),
            2 => Op::DuplicateSheet(sh),
            3 => Op::MoveSheet(sh, rng.gen_range(0..n)),
            4 => Op::HideSheet(sh),
            5 => Op::UnhideSheet(sh),
            _ => Op::SelectSheet(sh),
        };
    }
    let upper = if cfg.view_ops { 118 } else { 104 };
    match rng.gen_range(0..upper) {
        0..=27 => Op::Input(sh, row, col, value(rng, cfg, &sheets)),
        28..=29 => Op::ArrayFormula(
            sh,
            row,
            col,
            w,
            h,
            format!("={}", formula(rng, cfg, &sheets, 1)),
        ),
        30..=32 => Op::ClearContents(sh, row, col, w, h),
        33..=34 => Op::ClearAll(sh, row, col, w, h),
        35 => Op::ClearFormatting(sh, row, col, w, h),
        36..=39 => Op::InsertRows(sh, row, rng.gen_range(1..=2)),
        40..=43 => Op::DeleteRows(sh, row, rng.gen_range(1..=2)),
        44..=46 => Op::InsertCols(sh, col, rng.gen_range(1..=2)),
        47..=49 => Op::DeleteCols(sh, col, rng.gen_range(1..=2)),
        50..=51 => Op::MoveRows(sh, row, rng.gen_range(1..=2), rng.gen_range(-3..=3)),
        52..=53 => Op::MoveCols(sh, col, rng.gen_range(1..=2), rng.gen_range(-3..=3)),
        54..=55 => Op::ColWidth(
            sh,
            col,
            (col + rng.gen_range(0..2)).min(16384),
            [30.0, 90.0, 120.5][rng.gen_range(0..3)],
        ),
        56..=57 => Op::RowHeight(
            sh,
            row,
            (row + rng.gen_range(0..2)).min(1048576),
            [10.0, 25.0, 40.5][rng.gen_range(0..3)],
        ),
        58 => Op::ColHidden(sh, col, col, rng.gen_bool(0.6)),
        59 => Op::RowHidden(sh, row, row, rng.gen_bool(0.6)),
        60..=64 => {
            let (p, vals) = *crate::util::pick(rng, STYLE_PATHS);
            let v = *crate::util::pick(rng, vals);
            match rng.gen_range(0..6) {
                0 => Op::Style(sh, 1, col, 1, 1048576, p.into(), v.into()),
                1 => Op::Style(sh, row, 1, 16384, 1, p.into(), v.into()),
                _ => Op::Style(sh, row.min(1048570), col.min(16380), w, h, p.into(), v.into()),
            }
        }
        65 => match rng.gen_range(0..5) {
            0 => Op::Border(sh, 1, col, 1, 1048576, border_json(rng)),
            1 => Op::Border(sh, row, 1, 12, 1, border_json(rng)),
            _ => Op::Border(sh, row.min(1048570), col.min(16380), w, h, border_json(rng)),
        },
        66 => Op::NewSheet,
        67 => Op::DeleteSheet(sh),
        68 => Op::RenameSheet(
            sh,
            (*crate::util::pick(rng, &["Data", "My Sheet", "Sheet1", "A1", "x'y", "data", "Über"]))
                .into(),
        ),
        69 => Op::DuplicateSheet(sh),
        70 => Op::MoveSheet(sh, rng.gen_range(0..n)),
        71 => Op::HideSheet(sh),
        72 => Op::UnhideSheet(sh),
        73 => Op::SheetColor(sh, (*crate::util::pick(rng, &["#123456", "", "[4, 0.4]"])).into()),
        74 => Op::FrozenRows(sh, rng.gen_range(0..4)),
        75 => Op::FrozenCols(sh, rng.gen_range(0..4)),
        76 => Op::GridLines(sh, rng.gen_bool(0.5)),
        77..=78 => Op::NewName(
            names[rng.gen_range(0..3)].into(),
            if rng.gen_bool(0.3) { Some(sh) } else { None },
            format!(
                "{}!$A${}",
                quote_if_needed(&sheets[rng.gen_range(0..sheets.len())]),
                rng.gen_range(1..=cfg.rows)
            ),
        ),
        79 => Op::UpdateName(
            names[rng.gen_range(0..3)].into(),
            if rng.gen_bool(0.3) { Some(sh) } else { None },
            if cfg.avoids("rename_to_used_name") {
                "renamed".to_string()
            } else {
                ["myname", "other", "renamed"][rng.gen_range(0..3)].to_string()
            },
            if rng.gen_bool(0.3) { Some(sh) } else { None },
            format!(
                "{}!$B${}",
                quote_if_needed(&sheets[rng.gen_range(0..sheets.len())]),
                rng.gen_range(1..=cfg.rows)
            ),
        ),
        80 => Op::DeleteName(
            names[rng.gen_range(0..3)].into(),
            if rng.gen_bool(0.3) { Some(sh) } else { None },
        ),
        81 => Op::SetLink(
            sh,
            row,
            col,
            "https://x.y".into(),
            if rng.gen_bool(0.5) {
                Some("label".into())
            } else {
                None
            },
        ),
        82 => {
            if rng.gen_bool(0.5) {
                Op::DeleteLink(sh, row, col)
            } else {
                Op::SetInternalLink(sh, row, col, format!("{}!A1", quote_if_needed(&sheets[0])))
            }
        }
        83..=84 => Op::PasteCsv(
            sh,
            row,
            col,
            (*crate::util::pick(rng, &["1\t2\nfoo\t=A1+1", "7", "a\tb", "x\n\"q,r\"\n3"])).into(),
        ),
        85..=88 => Op::CopyPaste(
            sh,
            row,
            col,
            w,
            h,
            rng.gen_range(0..n),
            rng.gen_range(1..=cfg.rows),
            rng.gen_range(1..=cfg.cols),
            rng.gen_bool(0.5),
        ),
        89 => Op::PasteStyles(
            sh,
            row,
            col,
            w,
            h,
            rng.gen_range(0..n),
            rng.gen_range(1..=cfg.rows),
            rng.gen_range(1..=cfg.cols),
        ),
        90..=91 => Op::AutoFillRows(sh, row, col, w, h, (row + rng.gen_range(-6..=8)).clamp(1, 1048576)),
        92 => Op::AutoFillCols(sh, row, col, w, h, (col + rng.gen_range(-5..=7)).clamp(1, 16384)),
        93 => Op::SetName((*crate::util::pick(rng, &["wb", "other"])).into()),
        94 => Op::SetLocale((*crate::util::pick(rng, &["en", "de", "es", "en-GB", "fr", "it"])).into()),
        95 => Op::SetTimezone((*crate::util::pick(rng, &["UTC", "Europe/Berlin", "Asia/Tokyo"])).into()),
        96 => Op::SetTheme((*crate::util::pick(rng, &["a", "b"])).into()),
        97 => Op::CreateNamedStyle(
            (*crate::util::pick(rng, &["Mine", "Hot"])).into(),
            named_style_json(rng),
            rng.gen_bool(0.7),
        ),
        98 => match rng.gen_range(0..2) {
            0 => Op::UpdateNamedStyle(
                (*crate::util::pick(rng, &["Mine", "Hot"])).into(),
                (*crate::util::pick(rng, &["Mine", "Hot", "Cool"])).into(),
                named_style_json(rng),
            ),
            _ => Op::DeleteNamedStyle((*crate::util::pick(rng, &["Mine", "Hot", "Cool"])).into()),
        },
        99 => Op::ApplyNamedStyle(
            sh,
            row.min(1048570),
            col.min(16380),
            w,
            h,
            (*crate::util::pick(rng, &["Mine", "Hot", "Percent", "Normal", "Good"])).into(),
        ),
        // (conditional-format ranges are written without `$`: an area has no anchoring)
        100..=101 => Op::AddCf(sh, range_text(rng, cfg).replace('$', ""), cf_rule_json(rng, cfg)),
        102 => match rng.gen_range(0..2) {
            0 => Op::UpdateCf(sh, rng.gen_range(0..2), range_text(rng, cfg).replace('$', ""), cf_rule_json(rng, cfg)),
            _ => Op::DeleteCf(sh, rng.gen_range(0..2)),
        },
        103 => {
            if rng.gen_bool(0.5) {
                Op::RaiseCf(sh, rng.gen_range(0..2))
            } else {
                Op::LowerCf(sh, rng.gen_range(0..2))
            }
        }
        104..=105 => Op::SelectSheet(sh),
        106..=107 => Op::SelectCell(row, col),
        108 => Op::SelectRange(row, col, (row + h).min(1048576), (col + w).min(16384)),
        109..=111 => Op::Key(
            (*crate::util::pick(
                rng,
                &["ArrowRight", "ArrowLeft", "ArrowUp", "ArrowDown", "PageDown", "PageUp"],
            ))
            .into(),
        ),
        112..=113 => Op::ExpandSel(
            (*crate::util::pick(rng, &["ArrowRight", "ArrowLeft", "ArrowUp", "ArrowDown"])).into(),
        ),
        114 => Op::AreaSelecting(row, col),
        115 => Op::NavEdge(
            (*crate::util::pick(rng, &["ArrowRight", "ArrowLeft", "ArrowUp", "ArrowDown"])).into(),
        ),
        116 => Op::Window(
            *crate::util::pick(rng, &[0.0, 1.0, 800.0, 1e7]),
            *crate::util::pick(rng, &[0.0, 1.0, 600.0, 1e7]),
        ),
        _ => Op::TopLeft(row, col),
    }
}

/// Invalid-argument operations, generated from the current state.
pub fn gen_bad_op(rng: &mut StdRng, um: &UserModel, cfg: &GenCfg) -> Op {
    let sheets = sheet_names(um);
    let n = sheets.len() as u32;
    let bad = n + rng.gen_range(0..3);
    let sh = rng.gen_range(0..n);
    let row = rng.gen_range(1..=cfg.rows);
    let col = rng.gen_range(1..=cfg.cols);
    match rng.gen_range(0..46) {
        0 => Op::Input(bad, 1, 1, "1".into()),
        1 => Op::Input(sh, 0, 1, "1".into()),
        2 => Op::Input(sh, 1, 20000, "1".into()),
        3 => Op::InsertRows(sh, row, -1),
        4 => Op::DeleteRows(sh, row, -1),
        5 => Op::InsertCols(bad, 1, 1),
        6 => Op::DeleteCols(sh, 0, 1),
        7 => Op::ColWidth(sh, col, col + 1, -5.0),
        8 => Op::RowHeight(sh, row, row + 1, -5.0),
        9 => Op::Style(sh, row, col, 2, 2, "font.nope".into(), "x".into()),
        10 => Op::Style(sh, row, col, 2, 2, "font.color".into(), "red".into()),
        11 => Op::DeleteSheet(bad),
        12 => Op::RenameSheet(sh, "a/b".into()),
        13 => Op::RenameSheet(bad, "ok".into()),
        14 => Op::FrozenRows(sh, -1),
        15 => Op::FrozenCols(sh, -1),
        16 => Op::SetTimezone("Nowhere/None".into()),
        17 => Op::SetLocale("xx".into()),
        18 => Op::NewName("1bad".into(), None, "Sheet1!$A$1".into()),
        19 => Op::NewName("good".into(), Some(bad), "Sheet1!$A$1".into()),
        20 => Op::DeleteName("doesnotexist".into(), None),
        21 => Op::HideSheet(bad),
        22 => Op::MoveRows(sh, 1, 1, -5),
        23 => Op::SheetColor(sh, "notacolor".into()),
        24 => Op::RenameSheet(sh, sheets[rng.gen_range(0..sheets.len())].to_uppercase()),
        25 => Op::InsertRows(sh, 1048576, 5),
        26 => Op::InsertCols(sh, 16384, 3),
        27 => Op::DeleteRows(sh, 1048576, 3),
        28 => Op::MoveCols(sh, col, 2, -20),
        29 => Op::FrozenRows(sh, 2_000_000),
        30 => Op::UnhideSheet(bad),
        31 => Op::MoveSheet(sh, bad + 1),
        32 => Op::DuplicateSheet(bad),
        33 => Op::ClearContents(bad, 1, 1, 1, 1),
        34 => Op::ClearAll(sh, 0, 0, 1, 1),
        35 => Op::ArrayFormula(sh, row, col, 0, 1, "=1".into()),
        36 => Op::ArrayFormula(bad, row, col, 1, 1, "=1".into()),
        37 => Op::SetLink(bad, row, col, "https://x.y".into(), None),
        38 => Op::DeleteLink(sh, 0, col),
        39 => Op::DeleteCf(sh, 77),
        40 => Op::AddCf(sh, "notarange".into(), cf_rule_json(rng, cfg)),
        41 => Op::UpdateNamedStyle("Nope".into(), "X".into(), named_style_json(rng)),
        42 => Op::DeleteNamedStyle("Normal".into()),
        43 => Op::ApplyNamedStyle(sh, row, col, 1, 1, "NoSuchStyle".into()),
        44 => Op::AutoFillRows(sh, row, col, 1, 1, 2_000_000),
        _ => Op::PasteCsv(bad, row, col, "1".into()),
    }
}

fn area(s: u32, r: i32, c: i32, w: i32, h: i32) -> Area {
    Area {
        sheet: s,
        row: r,
        column: c,
        width: w,
        height: h,
    }
}

pub fn themes(which: &str) -> Theme {
    let mut t = Theme::default();
    if which == "b" {
        t.name = "Custom B".to_string();
        t.accent1 = "#112233".to_string();
    }
    t
}

/// Execute one operation through the public API. Returns the API's own result.
pub fn apply(um: &mut UserModel, op: &Op) -> Result<(), String> {
    match op {
        Op::Input(s, r, c, v) => um.set_user_input(*s, *r, *c, v),
        Op::ArrayFormula(s, r, c, w, h, f) => um.set_user_array_formula(*s, *r, *c, *w, *h, f),
        Op::ClearContents(s, r, c, w, h) => um.range_clear_contents(&area(*s, *r, *c, *w, *h)),
        Op::ClearAll(s, r, c, w, h) => um.range_clear_all(&area(*s, *r, *c, *w, *h)),
        Op::ClearFormatting(s, r, c, w, h) => um.range_clear_formatting(&area(*s, *r, *c, *w, *h)),
        Op::InsertRows(s, r, n) => um.insert_rows(*s, *r, *n),
        Op::DeleteRows(s, r, n) => um.delete_rows(*s, *r, *n),
        Op::InsertCols(s, c, n) => um.insert_columns(*s, *c, *n),
        Op::DeleteCols(s, c, n) => um.delete_columns(*s, *c, *n),
        Op::MoveRows(s, r, n, d) => um.move_rows_action(*s, *r, *n, *d),
        Op::MoveCols(s, c, n, d) => um.move_columns_action(*s, *c, *n, *d),
        Op::ColWidth(s, a, b, w) => um.set_columns_width(*s, *a, *b, *w),
        Op::RowHeight(s, a, b, h) => um.set_rows_height(*s, *a, *b, *h),
        Op::ColHidden(s, a, b, h) => um.set_columns_hidden(*s, *a, *b, *h),
        Op::RowHidden(s, a, b, h) => um.set_rows_hidden(*s, *a, *b, *h),
        Op::Style(s, r, c, w, h, p, v) => um.update_range_style(&area(*s, *r, *c, *w, *h), p, v),
        Op::Border(s, r, c, w, h, j) => {
            let b: BorderArea = serde_json::from_str(j).map_err(|e| e.to_string())?;
            um.set_area_with_border(&area(*s, *r, *c, *w, *h), &b)
        }
        Op::NewSheet => um.new_sheet(),
        Op::DeleteSheet(s) => um.delete_sheet(*s),
        Op::RenameSheet(s, n) => um.rename_sheet(*s, n),
        Op::DuplicateSheet(s) => um.duplicate_sheet(*s),
        Op::MoveSheet(a, b) => um.move_sheet(*a, *b),
        Op::HideSheet(s) => um.hide_sheet(*s),
        Op::UnhideSheet(s) => um.unhide_sheet(*s),
        Op::SheetColor(s, c) => {
            let color = Color::from_param(c)?;
            um.set_sheet_color(*s, &color)
        }
        Op::FrozenRows(s, n) => um.set_frozen_rows_count(*s, *n),
        Op::FrozenCols(s, n) => um.set_frozen_columns_count(*s, *n),
        Op::GridLines(s, b) => um.set_show_grid_lines(*s, *b),
        Op::NewName(n, s, f) => um.new_defined_name(n, *s, f),
        Op::UpdateName(n, s, n2, s2, f) => um.update_defined_name(n, *s, n2, *s2, f),
        Op::DeleteName(n, s) => um.delete_defined_name(n, *s),
        Op::SetLink(s, r, c, t, l) => um.set_cell_link(
            *s,
            *r,
            *c,
            Link::External {
                target: t.clone(),
                tooltip: None,
            },
            l.as_deref(),
        ),
        Op::SetInternalLink(s, r, c, loc) => um.set_cell_link(
            *s,
            *r,
            *c,
            Link::Internal {
                location: loc.clone(),
                tooltip: Some("tip".into()),
            },
            None,
        ),
        Op::DeleteLink(s, r, c) => um.delete_cell_link(*s, *r, *c),
        Op::PasteCsv(s, r, c, csv) => {
            // the UI pastes at the selection: select the target first (when it exists)
            if um.set_selected_sheet(*s).is_ok() {
                let _ = um.set_selected_cell(*r, *c);
            }
            um.paste_csv_string(&area(*s, *r, *c, 1, 1), csv)
        }
        Op::CopyPaste(s, r, c, w, h, ts, tr, tc, cut) => {
            um.set_selected_sheet(*s)?;
            um.set_selected_cell(*r, *c)?;
            um.set_selected_range(*r, *c, *r + *h - 1, *c + *w - 1)?;
            let clip = um.copy_to_clipboard()?;
            let j = serde_json::to_value(&clip).map_err(|e| e.to_string())?;
            let data: ironcalc_base::ClipboardData =
                serde_json::from_value(j["data"].clone()).map_err(|e| e.to_string())?;
            let range: (i32, i32, i32, i32) =
                serde_json::from_value(j["range"].clone()).map_err(|e| e.to_string())?;
            um.set_selected_sheet(*ts)?;
            um.set_selected_cell(*tr, *tc)?;
            um.paste_from_clipboard(*s, range, &data, *cut)
        }
        Op::PasteStyles(s, r, c, w, h, ts, tr, tc) => {
            let mut styles = vec![];
            for rr in *r..*r + *h {
                let mut line = vec![];
                for cc in *c..*c + *w {
                    line.push(um.get_cell_style(*s, rr, cc)?);
                }
                styles.push(line);
            }
            um.set_selected_sheet(*ts)?;
            um.set_selected_cell(*tr, *tc)?;
            um.on_paste_styles(&styles)
        }
        Op::AutoFillRows(s, r, c, w, h, to) => um.auto_fill_rows(&area(*s, *r, *c, *w, *h), *to),
        Op::AutoFillCols(s, r, c, w, h, to) => um.auto_fill_columns(&area(*s, *r, *c, *w, *h), *to),
        Op::SetName(n) => {
            um.set_name(n);
            Ok(())
        }
        Op::SetLocale(l) => um.set_locale(l),
        Op::SetTimezone(t) => um.set_timezone(t),
        Op::SetLanguage(l) => um.set_language(l),
        Op::SetTheme(t) => {
            um.set_theme(themes(t));
            Ok(())
        }
        Op::CreateNamedStyle(n, st, full) => {
            let style: Style = serde_json::from_str(st).map_err(|e| e.to_string())?;
            let inc = if *full {
                StyleIncludes::default()
            } else {
                StyleIncludes {
                    number_format: true,
                    font: false,
                    fill: false,
                    border: false,
                    alignment: false,
                    protection: false,
                }
            };
            um.create_named_style(n, &style, inc)
        }
        Op::UpdateNamedStyle(n, n2, st) => {
            let style: Style = serde_json::from_str(st).map_err(|e| e.to_string())?;
            um.update_named_style(n, n2, &style, StyleIncludes::default())
        }
        Op::DeleteNamedStyle(n) => um.delete_named_style(n),
        Op::ApplyNamedStyle(s, r, c, w, h, n) => {
            um.set_selected_sheet(*s)?;
            um.set_selected_cell(*r, *c)?;
            um.set_selected_range(*r, *c, *r + *h - 1, *c + *w - 1)?;
            um.on_apply_named_style(n)
        }
        Op::AddCf(s, range, rule) => {
            let r: CfRuleInput = serde_json::from_str(rule).map_err(|e| e.to_string())?;
            um.add_conditional_formatting(*s, range, r)
        }
        Op::UpdateCf(s, i, range, rule) => {
            let r: CfRuleInput = serde_json::from_str(rule).map_err(|e| e.to_string())?;
            um.update_conditional_formatting(*s, *i, range, r)
        }
        Op::DeleteCf(s, i) => um.delete_conditional_formatting(*s, *i),
        Op::RaiseCf(s, i) => um.raise_conditional_formatting_priority(*s, *i),
        Op::LowerCf(s, i) => um.lower_conditional_formatting_priority(*s, *i),
        Op::SelectSheet(s) => um.set_selected_sheet(*s),
        Op::SelectCell(r, c) => um.set_selected_cell(*r, *c),
        Op::SelectRange(a, b, c, d) => um.set_selected_range(*a, *b, *c, *d),
        Op::Key(k) => match k.as_str() {
            "ArrowRight" => um.on_arrow_right(),
            "ArrowLeft" => um.on_arrow_left(),
            "ArrowUp" => um.on_arrow_up(),
            "ArrowDown" => um.on_arrow_down(),
            "PageDown" => um.on_page_down(),
            _ => um.on_page_up(),
        },
        Op::ExpandSel(k) => um.on_expand_selected_range(k),
        Op::AreaSelecting(r, c) => um.on_area_selecting(*r, *c),
        Op::NavEdge(k) => {
            use ironcalc_base::worksheet::NavigationDirection as D;
            let d = match k.as_str() {
                "ArrowRight" => D::Right,
                "ArrowLeft" => D::Left,
                "ArrowUp" => D::Up,
                _ => D::Down,
            };
            um.on_navigate_to_edge_in_direction(d)
        }
        Op::Window(w, h) => {
            um.set_window_width(*w);
            um.set_window_height(*h);
            Ok(())
        }
        Op::TopLeft(r, c) => um.set_top_left_visible_cell(*r, *c),
        Op::Undo => um.undo(),
        Op::Redo => um.redo(),
        Op::Evaluate => {
            um.evaluate();
            Ok(())
        }
        Op::PauseEval => {
            um.pause_evaluation();
            Ok(())
        }
        Op::ResumeEval => {
            um.resume_evaluation();
            Ok(())
        }
        Op::Flush | Op::Reload => Ok(()),
    }
}

pub fn kind(op: &Op) -> String {
    let d = format!("{:?}", op);
    d.split(|c| c == '(' || c == ' ')
        .next()
        .unwrap_or("?")
        .to_string()
}

/// Does this operation only touch per-user view state (never recorded in history)?
pub fn is_view_op(op: &Op) -> bool {
    matches!(
        op,
        Op::SelectSheet(..)
            | Op::SelectCell(..)
            | Op::SelectRange(..)
            | Op::Key(..)
            | Op::ExpandSel(..)
            | Op::AreaSelecting(..)
            | Op::NavEdge(..)
            | Op::Window(..)
            | Op::TopLeft(..)
    )
}

pub fn new_user_model(nsheets: u32) -> UserModel<'static> {
    let mut um = UserModel::new_empty("wb", "en", "UTC", "en").expect("new_empty");
    for _ in 1..nsheets {
        um.new_sheet().expect("new_sheet");
    }
    // reload so that the set-up leaves no undo history and no queued diffs
    UserModel::from_bytes(&um.to_bytes(), "en").expect("from_bytes")
}

/// Features of an operation that `avoid` switches (from open known findings) can exclude.
pub fn op_features(op: &Op) -> Vec<&'static str> {
    let mut f = vec![];
    match op {
        Op::Input(_, _, _, v) => {
            if v.starts_with('=') {
                f.push("formulas");
                if v.contains(':') || v.contains("SEQUENCE") {
                    f.push("dyn_arrays");
                }
            }
            if v.contains("https://") {
                f.push("links");
            }
            if v.contains('\n') {
                // a multi-line text grows its row
                f.push("row_sizes");
            }
        }
        Op::ArrayFormula(..) => {
            f.push("formulas");
            f.push("cse_arrays");
        }
        Op::PasteCsv(_, _, _, csv) => {
            f.push("paste");
            f.push("csv");
            if csv.contains('=') {
                f.push("formulas");
            }
        }
        Op::CopyPaste(.., cut) => {
            f.push("paste");
            if *cut {
                f.push("cut");
            }
        }
        Op::PasteStyles(..) => f.push("paste"),
        Op::AutoFillRows(..) | Op::AutoFillCols(..) => f.push("autofill"),
        Op::SetLink(..) | Op::SetInternalLink(..) | Op::DeleteLink(..) => f.push("links"),
        Op::AddCf(..) | Op::UpdateCf(..) | Op::DeleteCf(..) | Op::RaiseCf(..) | Op::LowerCf(..) => {
            f.push("cf")
        }
        Op::UpdateName(..) => {
            f.push("names");
            f.push("update_name");
        }
        Op::NewName(..) | Op::DeleteName(..) => f.push("names"),
        Op::ColHidden(..) => {
            f.push("hidden");
            f.push("col_hidden");
        }
        Op::RowHidden(..) => {
            f.push("hidden");
            f.push("row_hidden");
        }
        Op::InsertRows(..) | Op::InsertCols(..) => {
            f.push("structural");
            f.push("insert");
        }
        Op::DeleteRows(..) | Op::DeleteCols(..) => {
            f.push("structural");
            f.push("delete");
        }
        Op::MoveRows(..) | Op::MoveCols(..) => {
            f.push("structural");
            f.push("move");
        }
        Op::DeleteSheet(..) => {
            f.push("sheets");
            f.push("delete_sheet");
        }
        Op::RenameSheet(..) => {
            f.push("sheets");
            f.push("rename_sheet");
        }
        Op::DuplicateSheet(..) => {
            f.push("sheets");
            f.push("duplicate_sheet");
        }
        Op::MoveSheet(..) | Op::NewSheet | Op::HideSheet(..) | Op::UnhideSheet(..) => {
            f.push("sheets")
        }
        Op::Border(..) => f.push("borders"),
        Op::UpdateNamedStyle(..) => f.push("named_style_update"),
        Op::SetLocale(..) => f.push("locale"),
        Op::RowHeight(..) => f.push("row_sizes"),
        Op::SheetColor(..) => f.push("sheet_colors"),
        Op::Style(_, _, _, w, h, ..) => {
            if *w >= 16384 {
                f.push("row_style");
            }
            if *h >= 1048576 {
                f.push("col_style");
            }
        }
        _ => {}
    }
    f
}

/// `gen_op` restricted by the avoid switches of `cfg`.
pub fn gen_op_avoiding(rng: &mut StdRng, um: &UserModel, cfg: &GenCfg) -> Op {
    let comma_decimal = matches!(um.get_locale().as_str(), "de" | "es" | "fr" | "it");
    for _ in 0..40 {
        let op = gen_op(rng, um, cfg);
        if cfg.avoid.is_empty() || !op_features(&op).iter().any(|f| cfg.avoid.contains(*f)) {
            let op = match op {
                Op::Input(s, r, c, v) if v.starts_with('=') && cfg.avoids("cyclic") => {
                    Op::Input(s, r, c, acyclic_formula(rng, cfg, r.min(cfg.rows + 1)))
                }
                other => other,
            };
            return localize(op, comma_decimal);
        }
    }
    Op::Input(0, 1, 1, "7".into())
}

/// The generator writes formulas with '.' decimals and ',' separators; a user of a
/// comma-decimal locale types ',' decimals and ';' separators. (The generated formulas
/// contain no string literal or sheet name with either character.)
fn localize_formula(f: &str, comma_decimal: bool) -> String {
    if !comma_decimal || !f.starts_with('=') {
        return f.to_string();
    }
    f.replace(',', ";").replace('.', ",")
}

fn localize(op: Op, comma_decimal: bool) -> Op {
    match op {
        Op::Input(s, r, c, v) => Op::Input(s, r, c, localize_formula(&v, comma_decimal)),
        Op::ArrayFormula(s, r, c, w, h, f) => {
            Op::ArrayFormula(s, r, c, w, h, localize_formula(&f, comma_decimal))
        }
        other => other,
    }
}
