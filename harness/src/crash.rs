//! Crash capture: inputs that may abort the process (stack overflow, allocation failure)
//! are executed in child processes of this binary. The parent keeps the range of a batch
//! "open"; when a child dies it bisects the range (children are deterministic functions
//! of (property, tier, seed, index)) until the single culprit input is isolated.

use serde_json::Value;
use std::io::Read;
use std::process::{Command, Stdio};
use std::time::{Duration, Instant};

#[derive(Debug, Clone, PartialEq)]
pub enum ChildEnd {
    /// exited normally; stdout lines (JSON) collected
    Done(Vec<Value>),
    /// killed by a signal / non-zero exit: (description, lines printed before dying)
    Died(String, Vec<Value>),
    /// the wall-clock watchdog fired
    TimedOut(Vec<Value>),
}

/// Run `ivm --child <prop> <tier> <seed> <from> <to>` with a watchdog.
pub fn run_child(prop: &str, tier: &str, seed: u64, from: u64, to: u64, budget: Duration) -> ChildEnd {
    let exe = std::env::current_exe().expect("current_exe");
    let mut child = match Command::new(exe)
        .args(["--child", prop, tier, &seed.to_string(), &from.to_string(), &to.to_string()])
        .stdout(Stdio::piped())
        .stderr(Stdio::null())
        .spawn()
    {
        Ok(c) => c,
        Err(e) => return ChildEnd::Died(format!("spawn failed: {e}"), vec![]),
    };
    let mut out = child.stdout.take().expect("stdout");
    let reader = std::thread::spawn(move || {
        let mut s = String::new();
        let _ = out.read_to_string(&mut s);
        s
    });
    let start = Instant::now();
    let status = loop {
        match child.try_wait() {
            Ok(Some(st)) => break Some(st),
            Ok(None) => {
                if start.elapsed() > budget {
                    let _ = child.kill();
                    let _ = child.wait();
                    break None;
                }
                std::thread::sleep(Duration::from_millis(20));
            }
            Err(_) => break None,
        }
    };
    let text = reader.join().unwrap_or_default();
    let lines: Vec<Value> = text.lines().filter_map(|l| serde_json::from_str(l).ok()).collect();
    match status {
        None => ChildEnd::TimedOut(lines),
        Some(st) if st.success() => ChildEnd::Done(lines),
        Some(st) => {
            #[cfg(unix)]
            let what = {
                use std::os::unix::process::ExitStatusExt;
                match st.signal() {
                    Some(sig) => format!("killed by signal {sig}"),
                    None => format!("exit status {:?}", st.code()),
                }
            };
            #[cfg(not(unix))]
            let what = format!("exit status {:?}", st.code());
            ChildEnd::Died(what, lines)
        }
    }
}

#[derive(Debug, Clone)]
pub struct Culprit {
    pub index: u64,
    pub how: String,
    pub timed_out: bool,
}

/// Run [from, to) in a child; on abnormal end bisect down to single culprit indices.
/// Returns the JSON lines of all completed work and the culprits found.
pub fn run_range(prop: &str, tier: &str, seed: u64, from: u64, to: u64, batch_budget: Duration, single_budget: Duration) -> (Vec<Value>, Vec<Culprit>) {
    let mut lines = vec![];
    let mut culprits = vec![];
    let mut stack = vec![(from, to)];
    while let Some((a, b)) = stack.pop() {
        if a >= b {
            continue;
        }
        let single = b - a == 1;
        let budget = if single { single_budget } else { batch_budget };
        match run_child(prop, tier, seed, a, b, budget) {
            ChildEnd::Done(l) => lines.extend(l),
            ChildEnd::Died(how, l) => {
                if single {
                    culprits.push(Culprit { index: a, how, timed_out: false });
                } else {
                    let _ = l; // results of a batch that died are recomputed by the halves
                    let mid = a + (b - a) / 2;
                    stack.push((mid, b));
                    stack.push((a, mid));
                }
            }
            ChildEnd::TimedOut(_) => {
                if single {
                    culprits.push(Culprit { index: a, how: format!("no result within {:?}", single_budget), timed_out: true });
                } else {
                    let mid = a + (b - a) / 2;
                    stack.push((mid, b));
                    stack.push((a, mid));
                }
            }
        }
        if culprits.len() > 12 {
            break;
        }
    }
    (lines, culprits)
}

/// Run `f` on a thread with the stack a main thread has (8 MiB), so that recursion depth
/// limits are those a user of the library meets.
pub fn on_main_sized_stack<T: Send + 'static>(f: impl FnOnce() -> T + Send + 'static) -> Option<T> {
    std::thread::Builder::new().stack_size(8 * 1024 * 1024).spawn(f).ok()?.join().ok()
}
