//! W — structure walker (C27) and V — selection walker (C28): pure functions over
//! the live workbook, run at quiescent points (between two API calls).

use ironcalc_base::types::*;
use ironcalc_base::UserModel;
use std::collections::{BTreeMap, BTreeSet};

pub const LAST_ROW: i32 = 1_048_576;
pub const LAST_COLUMN: i32 = 16_384;

/// A structural defect: (class, detail). `class` is coordinate-free.
pub type Defect = (String, String);

fn valid_sheet_name(name: &str) -> bool {
    let invalid = ['\\', '/', '*', '?', ':', '[', ']'];
    !name.is_empty() && name.chars().count() <= 31 && !name.contains(&invalid[..])
}

pub fn walk_structure(wb: &Workbook) -> Vec<Defect> {
    let mut out = vec![];
    // sheet names / ids
    let mut names = BTreeSet::new();
    let mut ids = BTreeSet::new();
    for ws in &wb.worksheets {
        if !valid_sheet_name(&ws.name) {
            out.push(("sheet.name.invalid".into(), format!("{:?}", ws.name)));
        }
        if !names.insert(ws.name.to_lowercase()) {
            out.push((
                "sheet.name.duplicate".into(),
                format!("{:?} (ignoring case)", ws.name),
            ));
        }
        if !ids.insert(ws.sheet_id) {
            out.push(("sheet.id.duplicate".into(), format!("{}", ws.sheet_id)));
        }
    }
    if wb.worksheets.is_empty() {
        out.push(("sheet.none".into(), "workbook has no sheets".into()));
    }
    let n_xf = wb.styles.cell_xfs.len() as i32;
    let n_ss = wb.shared_strings.len() as i32;
    for (si, ws) in wb.worksheets.iter().enumerate() {
        let n_f = ws.shared_formulas.len() as i32;
        // anchors: (row, col) -> (width, height)
        let mut anchors: BTreeMap<(i32, i32), (i32, i32)> = BTreeMap::new();
        for (row, rd) in &ws.sheet_data {
            for (col, cell) in rd {
                let at = format!("s{si}!R{row}C{col}");
                if *row < 1 || *row > LAST_ROW || *col < 1 || *col > LAST_COLUMN {
                    out.push(("cell.outside_grid".into(), at.clone()));
                }
                let s = cell.get_style();
                if s < 0 || s >= n_xf {
                    out.push(("cell.style_index".into(), format!("{at} s={s} of {n_xf}")));
                }
                match cell {
                    Cell::SharedString { si: ssi, .. } => {
                        if *ssi < 0 || *ssi >= n_ss {
                            out.push((
                                "cell.shared_string_index".into(),
                                format!("{at} si={ssi} of {n_ss}"),
                            ));
                        }
                    }
                    Cell::CellFormula { f, .. } => {
                        if *f < 0 || *f >= n_f {
                            out.push(("cell.formula_index".into(), format!("{at} f={f} of {n_f}")));
                        }
                    }
                    Cell::ArrayFormula { f, r, .. } => {
                        if *f < 0 || *f >= n_f {
                            out.push(("cell.formula_index".into(), format!("{at} f={f} of {n_f}")));
                        }
                        anchors.insert((*row, *col), *r);
                    }
                    _ => {}
                }
            }
        }
        // spill cells belong to an anchor that covers them
        let mut owner: BTreeMap<(i32, i32), (i32, i32)> = BTreeMap::new();
        for (row, rd) in &ws.sheet_data {
            for (col, cell) in rd {
                if let Cell::SpillCell { a, .. } = cell {
                    let at = format!("s{si}!R{row}C{col}");
                    match anchors.get(a) {
                        None => {
                            let what = match ws.sheet_data.get(&a.0).and_then(|r| r.get(&a.1)) {
                                None => "missing",
                                Some(_) => "not an array formula",
                            };
                            out.push((
                                format!("spill.anchor_{}", what.replace(' ', "_")),
                                format!("{at} anchor R{}C{} {what}", a.0, a.1),
                            ));
                        }
                        Some((w, h)) => {
                            let inside = *row >= a.0
                                && *row < a.0 + *h
                                && *col >= a.1
                                && *col < a.1 + *w;
                            if !inside {
                                out.push((
                                    "spill.not_covered".into(),
                                    format!("{at} anchor R{}C{} covers {w}x{h}", a.0, a.1),
                                ));
                            }
                        }
                    }
                    owner.insert((*row, *col), *a);
                }
            }
        }
        // spill ranges do not overlap: every cell of an anchor's block is either the
        // anchor itself or a spill cell owned by that anchor (a block cell owned by
        // another anchor, or being another anchor, is an overlap)
        for ((ar, ac), (w, h)) in &anchors {
            if *w > 200 || *h > 200 {
                continue; // bounded walk; huge blocks are checked through their spill cells only
            }
            for r in *ar..*ar + *h {
                for c in *ac..*ac + *w {
                    if (r, c) == (*ar, *ac) {
                        continue;
                    }
                    if let Some(o) = owner.get(&(r, c)) {
                        if o != &(*ar, *ac) {
                            out.push((
                                "spill.overlap".into(),
                                format!(
                                    "s{si}!R{r}C{c} in block of R{ar}C{ac} but owned by R{}C{}",
                                    o.0, o.1
                                ),
                            ));
                        }
                    } else if anchors.contains_key(&(r, c)) {
                        out.push((
                            "spill.overlap".into(),
                            format!("s{si}!R{r}C{c} is an anchor inside block of R{ar}C{ac}"),
                        ));
                    }
                }
            }
        }
        // column descriptors sorted, non overlapping, inside the grid
        let mut prev_max = 0;
        for c in &ws.cols {
            if c.min < 1 || c.max > LAST_COLUMN || c.min > c.max {
                out.push((
                    "cols.bounds".into(),
                    format!("s{si} col descriptor {}..{}", c.min, c.max),
                ));
            }
            if c.min <= prev_max {
                out.push((
                    "cols.unsorted_or_overlapping".into(),
                    format!("s{si} descriptor {}..{} after max {prev_max}", c.min, c.max),
                ));
            }
            prev_max = prev_max.max(c.max);
            if let Some(s) = c.style {
                if s < 0 || s >= n_xf {
                    out.push(("cols.style_index".into(), format!("s{si} col {} s={s}", c.min)));
                }
            }
        }
        let mut seen_rows = BTreeSet::new();
        for r in &ws.rows {
            if !seen_rows.insert(r.r) {
                out.push(("rows.duplicate".into(), format!("s{si} row {}", r.r)));
            }
            if r.r < 1 || r.r > LAST_ROW {
                out.push(("rows.bounds".into(), format!("s{si} row {}", r.r)));
            }
            if r.s < 0 || r.s >= n_xf {
                out.push(("rows.style_index".into(), format!("s{si} row {} s={}", r.r, r.s)));
            }
        }
    }
    for dn in &wb.defined_names {
        if let Some(id) = dn.sheet_id {
            if !ids.contains(&id) {
                out.push((
                    "defined_name.scope_missing_sheet".into(),
                    format!("{} scoped to sheet id {id}", dn.name),
                ));
            }
        }
    }
    out
}

/// V: the selection points at an existing sheet and cell.
pub fn walk_selection(um: &UserModel) -> Vec<Defect> {
    let mut out = vec![];
    let v = um.get_selected_view();
    let n = um.get_model().workbook.worksheets.len() as u32;
    // `get_selected_view` falls back to sheet 0 when the selected sheet does not exist;
    // the selected sheet itself is read through `get_selected_sheet`
    let selected_sheet = um.get_selected_sheet();
    if selected_sheet >= n || v.sheet >= n {
        out.push((
            "selection.sheet_missing".into(),
            format!("selected sheet {selected_sheet} of {n}"),
        ));
    }
    let [r1, c1, r2, c2] = v.range;
    let in_grid = |r: i32, c: i32| (1..=LAST_ROW).contains(&r) && (1..=LAST_COLUMN).contains(&c);
    if !in_grid(v.row, v.column) {
        out.push((
            "selection.cell_outside_grid".into(),
            format!("cell ({},{})", v.row, v.column),
        ));
    }
    if !in_grid(r1, c1) || !in_grid(r2, c2) {
        out.push((
            "selection.range_outside_grid".into(),
            format!("range {:?}", v.range),
        ));
    }
    let (lo_r, hi_r) = (r1.min(r2), r1.max(r2));
    let (lo_c, hi_c) = (c1.min(c2), c1.max(c2));
    if v.row < lo_r || v.row > hi_r || v.column < lo_c || v.column > hi_c {
        out.push((
            "selection.cell_outside_range".into(),
            format!("cell ({},{}) range {:?}", v.row, v.column, v.range),
        ));
    }
    // the same for the stored views of every sheet (they become the selection when the sheet is selected)
    out
}
