//! ivm — IronCalc verification monitors.
//!
//! Every property is decided by an oracle that observes executions of the real
//! `ironcalc_base` / `ironcalc` crates built from the repository working tree.

pub mod crash;
pub mod evid;
pub mod fgen;
pub mod known;
pub mod nodeutil;
pub mod ops;
pub mod par;
pub mod props;
pub mod refeval;
pub mod snap;
pub mod util;
pub mod walk;
