use crate::evid::Stats;
use std::sync::atomic::{AtomicBool, AtomicU64, Ordering};
use std::time::{Duration, Instant};

/// Run `n` independent cases on `threads` workers. Each case gets its index; the
/// closure adds to a per-worker `Stats`. Stops handing out new cases when the wall
/// budget is exhausted (that only reduces coverage, it is never a verdict) or when
/// enough violations have been collected.
pub fn run_cases<F>(n: u64, threads: usize, budget: Duration, f: F) -> Stats
where
    F: Fn(u64, &mut Stats) + Sync,
{
    let maxv: usize = std::env::var("VERIF_MAXV")
        .ok()
        .and_then(|s| s.parse().ok())
        .unwrap_or(8);
    let next = AtomicU64::new(0);
    let stop = AtomicBool::new(false);
    let start = Instant::now();
    let mut total = Stats::default();
    let mut cut_short = false;
    std::thread::scope(|s| {
        let mut handles = vec![];
        for _ in 0..threads.max(1) {
            handles.push(
                std::thread::Builder::new()
                    .stack_size(256 * 1024 * 1024)
                    .spawn_scoped(s, || {
                        let mut st = Stats::default();
                        loop {
                            if stop.load(Ordering::Relaxed) {
                                break;
                            }
                            let i = next.fetch_add(1, Ordering::Relaxed);
                            if i >= n {
                                break;
                            }
                            if start.elapsed() > budget {
                                stop.store(true, Ordering::Relaxed);
                                break;
                            }
                            f(i, &mut st);
                            if st.violations.len() >= maxv {
                                stop.store(true, Ordering::Relaxed);
                                break;
                            }
                        }
                        st
                    })
                    .expect("spawn"),
            );
        }
        for h in handles {
            match h.join() {
                Ok(st) => total.merge(st),
                Err(_) => total.notes.push("worker thread died".to_string()),
            }
        }
    });
    let done = next.load(Ordering::Relaxed).min(n);
    if done < n {
        cut_short = true;
    }
    total
        .extra
        .insert("cases_planned".into(), serde_json::json!(n));
    total
        .extra
        .insert("cases_started".into(), serde_json::json!(done));
    total
        .extra
        .insert("cut_short_by_budget_or_violations".into(), serde_json::json!(cut_short));
    total
}
