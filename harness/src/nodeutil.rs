//! Helpers over the engine's formula tree (`Node` is public).

use ironcalc_base::expressions::parser::Node;
use ironcalc_base::expressions::types::CellReferenceRC;

pub fn children(n: &Node) -> Vec<&Node> {
    use Node::*;
    match n {
        OpRangeKind { left, right }
        | OpConcatenateKind { left, right }
        | OpSumKind { left, right, .. }
        | OpProductKind { left, right, .. }
        | OpPowerKind { left, right }
        | CompareKind { left, right, .. } => vec![left.as_ref(), right.as_ref()],
        FunctionKind { args, .. } | NamedFunctionKind { args, .. } => args.iter().collect(),
        LambdaDefKind { body, .. } => vec![body.as_ref()],
        LambdaCallKind { lambda, args } => {
            let mut v = vec![lambda.as_ref()];
            v.extend(args.iter());
            v
        }
        ImplicitIntersection { child, .. } | SpillRangeOperator { child } => vec![child.as_ref()],
        UnaryKind { right, .. } => vec![right.as_ref()],
        _ => vec![],
    }
}

pub fn walk<'a>(n: &'a Node, f: &mut dyn FnMut(&'a Node)) {
    f(n);
    for c in children(n) {
        walk(c, f);
    }
}

pub fn contains_parse_error(n: &Node) -> bool {
    let mut bad = false;
    walk(n, &mut |x| {
        if matches!(x, Node::ParseErrorKind { .. }) {
            bad = true;
        }
    });
    bad
}

fn abs(v: i32, is_abs: bool, origin: i32) -> i32 {
    if is_abs {
        v
    } else {
        v + origin
    }
}

/// The cells every reference of the tree points at, in order, independent of `$` flags.
pub fn reference_targets(n: &Node, ctx: &CellReferenceRC) -> Vec<String> {
    let mut out = vec![];
    walk(n, &mut |x| match x {
        Node::ReferenceKind { sheet_index, sheet_name, absolute_row, absolute_column, row, column } => out.push(format!(
            "{}/{:?}!R{}C{}",
            sheet_index,
            sheet_name.as_ref().map(|s| s.to_lowercase()),
            abs(*row, *absolute_row, ctx.row),
            abs(*column, *absolute_column, ctx.column)
        )),
        Node::RangeKind { sheet_index, sheet_name, absolute_row1, absolute_column1, row1, column1, absolute_row2, absolute_column2, row2, column2 } => {
            out.push(format!(
                "{}/{:?}!R{}C{}:R{}C{}",
                sheet_index,
                sheet_name.as_ref().map(|s| s.to_lowercase()),
                abs(*row1, *absolute_row1, ctx.row),
                abs(*column1, *absolute_column1, ctx.column),
                abs(*row2, *absolute_row2, ctx.row),
                abs(*column2, *absolute_column2, ctx.column)
            ))
        }
        Node::WrongReferenceKind { sheet_name, absolute_row, absolute_column, row, column } => out.push(format!(
            "?/{:?}!R{}C{}",
            sheet_name.as_ref().map(|s| s.to_lowercase()),
            abs(*row, *absolute_row, ctx.row),
            abs(*column, *absolute_column, ctx.column)
        )),
        Node::WrongRangeKind { sheet_name, absolute_row1, absolute_column1, row1, column1, absolute_row2, absolute_column2, row2, column2 } => {
            out.push(format!(
                "?/{:?}!R{}C{}:R{}C{}",
                sheet_name.as_ref().map(|s| s.to_lowercase()),
                abs(*row1, *absolute_row1, ctx.row),
                abs(*column1, *absolute_column1, ctx.column),
                abs(*row2, *absolute_row2, ctx.row),
                abs(*column2, *absolute_column2, ctx.column)
            ))
        }
        _ => {}
    });
    out
}

/// Operator skeleton of a tree with leaves erased (shape key for formula workloads).
pub fn skeleton(n: &Node, depth: usize) -> String {
    use Node::*;
    if depth == 0 {
        return "_".into();
    }
    let k = |c: &Node| skeleton(c, depth - 1);
    match n {
        BooleanKind(_) => "b".into(),
        NumberKind(_) => "n".into(),
        StringKind(_) => "s".into(),
        ReferenceKind { .. } => "ref".into(),
        RangeKind { .. } => "rng".into(),
        WrongReferenceKind { .. } => "wref".into(),
        WrongRangeKind { .. } => "wrng".into(),
        OpRangeKind { left, right } => format!("({}:{})", k(left), k(right)),
        OpConcatenateKind { left, right } => format!("({}&{})", k(left), k(right)),
        OpSumKind { kind, left, right } => format!("({}{}{})", k(left), kind, k(right)),
        OpProductKind { kind, left, right } => format!("({}{}{})", k(left), kind, k(right)),
        OpPowerKind { left, right } => format!("({}^{})", k(left), k(right)),
        CompareKind { kind, left, right } => format!("({}{}{})", k(left), kind, k(right)),
        FunctionKind { kind, args } => format!("{:?}({})", kind, args.iter().map(k).collect::<Vec<_>>().join(",")),
        NamedFunctionKind { args, .. } => format!("namedfn({})", args.iter().map(k).collect::<Vec<_>>().join(",")),
        LambdaDefKind { body, .. } => format!("lambda({})", k(body)),
        LambdaCallKind { lambda, args } => format!("call[{}]({})", k(lambda), args.iter().map(k).collect::<Vec<_>>().join(",")),
        ArrayKind(_) => "arr".into(),
        DefinedNameKind(_) => "name".into(),
        TableNameKind(_) => "table".into(),
        NamedVariableKind { .. } => "var".into(),
        ImplicitIntersection { child, .. } => format!("@{}", k(child)),
        SpillRangeOperator { child } => format!("{}#", k(child)),
        UnaryKind { kind, right } => format!("{:?}({})", kind, k(right)),
        ErrorKind(_) => "err".into(),
        ParseErrorKind { .. } => "PARSEERROR".into(),
        EmptyArgKind => "empty".into(),
    }
}
