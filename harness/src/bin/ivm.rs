use ivm::evid::{write_evidence, EvidenceMeta, Violation};
use ivm::known;
use ivm::props::{registry, Ctx};
use serde_json::{json, Value};
use std::collections::{BTreeMap, BTreeSet};
use std::time::Instant;

fn usage() -> ! {
    eprintln!("usage: ivm <Cnn> quick|thorough | ivm <Cnn> --replay <file> | ivm list");
    std::process::exit(2);
}

fn main() {
    let args: Vec<String> = std::env::args().collect();
    if args.len() < 2 {
        usage();
    }
    let verif_dir = std::env::var("VERIF_DIR").unwrap_or_else(|_| "/verif".to_string());
    let repo_dir = std::env::var("VERIF_REPO").unwrap_or_else(|_| "/repo".to_string());
    if args[1] == "--child" {
        // child side of the crash-capture monitors: --child <prop> <tier> <seed> <from> <to>
        ivm::util::install_panic_hook();
        let prop = args.get(2).map(|s| s.as_str()).unwrap_or("");
        let tier = args.get(3).map(|s| s.as_str()).unwrap_or("quick");
        let num = |k: usize| args.get(k).and_then(|s| s.parse::<u64>().ok()).unwrap_or(0);
        match prop {
            "C11" => ivm::props::c11::child_main(tier, num(4), num(5), num(6)),
            "C25" => ivm::props::c25::child_main(tier, num(4), num(5), num(6)),
            _ => std::process::exit(2),
        }
        return;
    }
    let reg = registry();
    if args[1] == "list" {
        for p in &reg {
            println!("{}", p.id);
        }
        return;
    }
    let id = args[1].clone();
    let Some(prop) = reg.iter().find(|p| p.id == id) else {
        eprintln!("HARNESS-ERROR: unknown property {id}");
        std::process::exit(2);
    };
    if args.len() < 3 {
        usage();
    }
    ivm::util::install_panic_hook();
    let seed: u64 = std::env::var("VERIF_SEED")
        .ok()
        .and_then(|s| s.parse::<i64>().ok())
        .map(|v| v as u64)
        .unwrap_or(0);
    let threads: usize = std::env::var("VERIF_THREADS")
        .ok()
        .and_then(|s| s.parse().ok())
        .unwrap_or_else(|| {
            std::thread::available_parallelism()
                .map(|n| n.get())
                .unwrap_or(4)
                .min(16)
        });
    let findings = known::load(&format!("{verif_dir}/known_findings.json"), &id);
    // clean-room alternatives: every distinct ';'-separated alternative named by an open
    // finding is one set of generator switches; clean-room cases rotate over them
    let mut avoid: Vec<BTreeSet<String>> = vec![];
    let mut add_spec = |spec: &str, avoid: &mut Vec<BTreeSet<String>>| {
        for alt in spec.split(';') {
            let set: BTreeSet<String> = alt
                .split(',')
                .map(|p| p.trim().to_string())
                .filter(|p| !p.is_empty())
                .collect();
            if !set.is_empty() && !avoid.contains(&set) {
                avoid.push(set);
            }
        }
    };
    for f in &findings {
        if f.status == "open" {
            if let Some(a) = &f.avoid {
                add_spec(a, &mut avoid);
            }
        }
    }
    if let Ok(extra) = std::env::var("VERIF_AVOID") {
        // exploration aid only (never set by MANIFEST commands)
        add_spec(&extra, &mut avoid);
    }
    let mut ctx = Ctx {
        tier: "quick".into(),
        seed,
        threads,
        avoid,
        findings: findings.clone(),
        verif_dir: verif_dir.clone(),
        repo_dir,
    };

    if args[2] == "--replay" {
        let Some(path) = args.get(3) else { usage() };
        let text = std::fs::read_to_string(path).unwrap_or_else(|e| {
            eprintln!("HARNESS-ERROR: cannot read {path}: {e}");
            std::process::exit(2);
        });
        let v: Value = serde_json::from_str(&text).unwrap_or_else(|e| {
            eprintln!("HARNESS-ERROR: cannot parse {path}: {e}");
            std::process::exit(2);
        });
        let case = v.get("case").cloned().unwrap_or(v);
        let viols = (prop.replay)(&ctx, &case);
        if viols.is_empty() {
            println!("replay: property {id} held on this case");
            std::process::exit(0);
        }
        for v in &viols {
            println!("replay: check={} sig={}\n  {}", v.check, v.sig, v.detail);
        }
        println!("VIOLATION property={id} replay={path}");
        std::process::exit(1);
    }

    let tier = match args[2].as_str() {
        "quick" | "thorough" => args[2].clone(),
        _ => usage(),
    };
    ctx.tier = tier.clone();
    let start = Instant::now();

    // 1. committed findings: open ones must still reproduce (KNOWN-FINDING line),
    //    fixed ones must hold again (a fixed entry suppresses nothing).
    let mut known_lines = vec![];
    let mut fixed_checked = vec![];
    let open_findings: Vec<known::Finding> = findings
        .iter()
        .filter(|f| f.status == "open")
        .cloned()
        .collect();
    let mut unknown: Vec<Violation> = vec![];
    for f in &findings {
        let case = f.replay.as_ref().and_then(|p| {
            let full = format!("{verif_dir}/{p}");
            std::fs::read_to_string(&full)
                .ok()
                .and_then(|t| serde_json::from_str::<Value>(&t).ok())
                .map(|v| v.get("case").cloned().unwrap_or(v))
        });
        if f.status == "open" {
            match case {
                Some(case) => {
                    let mut viols = (prop.replay)(&ctx, &case);
                    for _ in 1..f.attempts.unwrap_or(1) {
                        if viols.iter().any(|v| f.explains(&v.sig)) {
                            break;
                        }
                        viols = (prop.replay)(&ctx, &case);
                    }
                    if viols.iter().any(|v| f.explains(&v.sig)) {
                        println!("KNOWN-FINDING: property={id} {} [{}]", f.what, f.id);
                        known_lines.push(format!("{}: {}", f.id, f.what));
                    } else if viols.is_empty() {
                        println!(
                            "note: known finding {} no longer reproduces on this tree (stale entry)",
                            f.id
                        );
                    } else {
                        // the committed case now fails differently: that is a new violation
                        unknown.extend(viols);
                    }
                }
                None => {
                    eprintln!(
                        "HARNESS-ERROR: open finding {} has no readable replay file",
                        f.id
                    );
                    std::process::exit(2);
                }
            }
        } else if f.status == "fixed" {
            if let Some(case) = case {
                let viols = (prop.replay)(&ctx, &case);
                fixed_checked.push(format!(
                    "{}: {}",
                    f.id,
                    if viols.is_empty() { "holds" } else { "VIOLATED AGAIN" }
                ));
                unknown.extend(viols);
            }
        }
    }

    // 2. the workload
    let mut st = (prop.run)(&ctx);
    let mut known_hits: BTreeMap<String, u64> = BTreeMap::new();
    for (k, v) in &st.counters {
        if let Some(id) = k.strip_prefix("known_hit.") {
            *known_hits.entry(id.to_string()).or_insert(0) += *v;
        }
    }
    for v in std::mem::take(&mut st.violations) {
        if let Some(f) = open_findings.iter().find(|f| f.explains(&v.sig)) {
            *known_hits.entry(f.id.clone()).or_insert(0) += 1;
        } else {
            unknown.push(v);
        }
    }

    // 3. report
    let wall = start.elapsed().as_secs_f64();
    let _ = std::fs::create_dir_all(format!("{verif_dir}/evidence"));
    let _ = std::fs::create_dir_all(format!("{verif_dir}/replays"));
    let mut seen = BTreeSet::new();
    let mut lines = vec![];
    for (k, v) in unknown.iter().enumerate() {
        if !seen.insert(v.sig.clone()) {
            continue;
        }
        let path = format!("{verif_dir}/replays/{id}-{tier}-seed{seed}-{k}.json");
        let body = json!({
            "property": id, "check": v.check, "signature": v.sig, "detail": v.detail,
            "seed": seed, "tier": tier, "case": v.case,
        });
        let _ = std::fs::write(&path, serde_json::to_string_pretty(&body).unwrap());
        println!("violation: check={} sig={}\n  {}", v.check, v.sig, v.detail);
        lines.push(format!("VIOLATION property={id} replay={path}"));
    }
    st.extra.insert(
        "avoid_switches".into(),
        json!(ctx.avoid.iter().map(|s| s.iter().cloned().collect::<Vec<_>>().join(",")).collect::<Vec<_>>()),
    );
    st.extra.insert("threads".into(), json!(threads));
    if !unknown.is_empty() {
        let sigs: Vec<&String> = seen.iter().collect();
        st.extra.insert("violation_signatures".into(), json!(sigs));
    }
    let meta = EvidenceMeta {
        property_id: &id,
        tier: &tier,
        seed,
        level: prop.level,
        rule: prop.rule,
        assumptions: prop.assumptions.iter().map(|s| s.to_string()).collect(),
        exhaustive: st
            .extra
            .get("exhaustive")
            .and_then(|v| v.as_bool())
            .unwrap_or(false),
    };
    let ev_path = format!("{verif_dir}/evidence/{id}.json");
    if let Err(e) = write_evidence(
        &ev_path,
        &meta,
        &st,
        wall,
        lines.len(),
        &known_lines,
        &known_hits,
        &fixed_checked,
    ) {
        eprintln!("HARNESS-ERROR: cannot write {ev_path}: {e}");
        std::process::exit(2);
    }
    println!(
        "{id} {tier} seed={seed}: evaluations={} distinct_nontrivial={} inconclusive={} known_hits={:?} wall={:.1}s",
        st.evaluations,
        st.shapes.len(),
        st.inconclusive,
        known_hits,
        wall
    );
    if !lines.is_empty() {
        for l in &lines {
            println!("{l}");
        }
        std::process::exit(1);
    }
    if st.evaluations == 0 || st.shapes.len() < 2 {
        eprintln!("HARNESS-ERROR: the workload observed nothing non-trivial (evaluations={}, distinct={}); verdict inconclusive", st.evaluations, st.shapes.len());
        std::process::exit(3);
    }
    std::process::exit(0);
}
