//! Exploration aid (not used by any registered check): `calc A1=1 B1==A1+1 ...` types the
//! inputs into a fresh two-sheet model, evaluates and prints what every cell shows.
use ironcalc_base::Model;

fn main() {
    let mut m = Model::new_empty("wb", "en", "UTC", "en").unwrap();
    m.new_sheet();
    let mut cells = vec![];
    for a in std::env::args().skip(1) {
        let (cell, input) = a.split_once('=').expect("CELL=input");
        let (sheet, cell) = match cell.split_once('!') {
            Some(("Sheet2", c)) => (1, c),
            Some((_, c)) => (0, c),
            None => (0, cell),
        };
        let col = cell.chars().take_while(|c| c.is_ascii_alphabetic()).fold(0, |acc, c| acc * 26 + (c.to_ascii_uppercase() as i32 - 64));
        let row: i32 = cell.chars().skip_while(|c| c.is_ascii_alphabetic()).collect::<String>().parse().unwrap();
        m.set_user_input(sheet, row, col, input.to_string()).unwrap();
        cells.push((sheet, row, col, a.clone()));
    }
    m.evaluate();
    for (s, r, c, a) in cells {
        println!("{a:40} -> {:?}  [{}]", m.get_cell_value_by_index(s, r, c), m.get_formatted_cell_value(s, r, c).unwrap_or_default());
    }
}
