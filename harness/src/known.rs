use serde::Deserialize;
use serde_json::Value;

/// One entry of /verif/known_findings.json (committed; never written at run time).
#[derive(Deserialize, Clone, Debug)]
pub struct Finding {
    pub id: String,
    pub property: String,
    /// "open" | "fixed"
    pub status: String,
    /// exact signatures this finding explains (open findings only suppress these)
    #[serde(default)]
    pub sigs: Vec<String>,
    /// patterns over signatures of the form `check|key|cat1,cat2,...`
    #[serde(default)]
    pub patterns: Vec<Pattern>,
    pub what: String,
    /// committed replay case (path relative to /verif), optional
    #[serde(default)]
    pub replay: Option<String>,
    /// generator switch that makes the trigger impossible in the clean-room pass
    #[serde(default)]
    pub avoid: Option<String>,
    /// commit of the fix (fixed findings)
    #[serde(default)]
    pub commit: Option<String>,
    /// the canonical line "fixed: property=<id> <commit> <what failed>"
    #[serde(default)]
    pub line: Option<String>,
    /// how many times the replay is attempted (for defects whose manifestation depends on
    /// the engine's hash-map iteration order, which differs from process to process and
    /// from map to map); default 1
    #[serde(default)]
    pub attempts: Option<u32>,
}

/// Matches a signature `check|key|c1,c2,..`: same check, key listed (or "*"),
/// and every category of the signature allowed by the pattern (or "*").
#[derive(Deserialize, Clone, Debug)]
pub struct Pattern {
    pub check: String,
    #[serde(default)]
    pub keys: Vec<String>,
    #[serde(default)]
    pub cats: Vec<String>,
}

impl Pattern {
    pub fn matches(&self, sig: &str) -> bool {
        let mut parts = sig.splitn(3, '|');
        let check = parts.next().unwrap_or("");
        let key = parts.next().unwrap_or("");
        let cats = parts.next().unwrap_or("");
        if check != self.check {
            return false;
        }
        if !(self.keys.iter().any(|k| k == "*" || k == key)) {
            return false;
        }
        if self.cats.iter().any(|c| c == "*") {
            return true;
        }
        cats.split(',')
            .filter(|c| !c.is_empty())
            .all(|c| self.cats.iter().any(|a| a == c))
    }
}

impl Finding {
    pub fn explains(&self, sig: &str) -> bool {
        self.sigs.iter().any(|s| s == sig) || self.patterns.iter().any(|p| p.matches(sig))
    }
}

pub fn load(path: &str, property: &str) -> Vec<Finding> {
    let Ok(text) = std::fs::read_to_string(path) else {
        return vec![];
    };
    let v: Value = match serde_json::from_str(&text) {
        Ok(v) => v,
        Err(e) => {
            eprintln!("HARNESS-ERROR: cannot parse {path}: {e}");
            std::process::exit(2);
        }
    };
    let mut out = vec![];
    if let Some(list) = v.get("findings").and_then(|l| l.as_array()) {
        for f in list {
            match serde_json::from_value::<Finding>(f.clone()) {
                Ok(f) => {
                    if f.property == property {
                        out.push(f)
                    }
                }
                Err(e) => {
                    eprintln!("HARNESS-ERROR: bad finding entry in {path}: {e}");
                    std::process::exit(2);
                }
            }
        }
    }
    out
}
