use rand::rngs::StdRng;
use rand::{Rng, SeedableRng};
use std::panic::{catch_unwind, AssertUnwindSafe};
use std::sync::Mutex;

/// splitmix64: derive independent case seeds from (seed, stream, index)
pub fn mix(a: u64, b: u64) -> u64 {
    let mut z = a
        .wrapping_mul(0x9E37_79B9_7F4A_7C15)
        .wrapping_add(b.wrapping_mul(0xBF58_476D_1CE4_E5B9))
        .wrapping_add(0x94D0_49BB_1331_11EB);
    z = (z ^ (z >> 30)).wrapping_mul(0xBF58_476D_1CE4_E5B9);
    z = (z ^ (z >> 27)).wrapping_mul(0x94D0_49BB_1331_11EB);
    z ^ (z >> 31)
}

pub fn rng_for(seed: u64, stream: u64, index: u64) -> StdRng {
    StdRng::seed_from_u64(mix(mix(seed, stream), index))
}

pub fn pick<'a, T>(rng: &mut StdRng, xs: &'a [T]) -> &'a T {
    &xs[rng.gen_range(0..xs.len())]
}

pub fn chance(rng: &mut StdRng, p: f64) -> bool {
    rng.gen_bool(p)
}

static LAST_PANIC: Mutex<Option<String>> = Mutex::new(None);

thread_local! {
    static PANIC_LOC: std::cell::RefCell<Option<String>> = const { std::cell::RefCell::new(None) };
}

/// Install a quiet panic hook that remembers the panic location per thread.
pub fn install_panic_hook() {
    std::panic::set_hook(Box::new(|info| {
        let loc = info
            .location()
            .map(|l| format!("{}:{}", l.file(), l.line()))
            .unwrap_or_else(|| "?".to_string());
        let msg = if let Some(s) = info.payload().downcast_ref::<&str>() {
            s.to_string()
        } else if let Some(s) = info.payload().downcast_ref::<String>() {
            s.clone()
        } else {
            "<non-string panic>".to_string()
        };
        let full = format!("{loc}: {msg}");
        PANIC_LOC.with(|p| *p.borrow_mut() = Some(full.clone()));
        if let Ok(mut g) = LAST_PANIC.lock() {
            *g = Some(full);
        }
    }));
}

/// Run f, turning a panic into Err("file:line: message").
pub fn guarded<T>(f: impl FnOnce() -> T) -> Result<T, String> {
    PANIC_LOC.with(|p| *p.borrow_mut() = None);
    match catch_unwind(AssertUnwindSafe(f)) {
        Ok(v) => Ok(v),
        Err(_) => Err(PANIC_LOC
            .with(|p| p.borrow_mut().take())
            .unwrap_or_else(|| "panic (location unknown)".to_string())),
    }
}

/// Strip digits so that messages are comparable across coordinates.
pub fn erase_digits(s: &str) -> String {
    let mut out = String::new();
    let mut prev = false;
    for ch in s.chars() {
        if ch.is_ascii_digit() {
            if !prev {
                out.push('#');
            }
            prev = true;
        } else {
            out.push(ch);
            prev = false;
        }
    }
    out
}

/// file part of a "file:line: message" panic description, without the line
pub fn panic_site(p: &str) -> String {
    let file = p.split(':').next().unwrap_or("?");
    // repository-relative path, whatever directory the repository was built from
    let file = ["/base/src/", "/xlsx/src/"]
        .iter()
        .find_map(|m| file.find(m).map(|i| &file[i + 1..]))
        .unwrap_or(file);
    let msg = p.splitn(3, ':').nth(2).unwrap_or("").trim();
    let msg: String = erase_digits(msg).chars().take(60).collect();
    format!("{file}|{msg}")
}

pub fn col_name(mut c: i32) -> String {
    let mut s = Vec::new();
    while c > 0 {
        let r = ((c - 1) % 26) as u8;
        s.push(b'A' + r);
        c = (c - 1) / 26;
    }
    s.reverse();
    String::from_utf8(s).unwrap()
}

pub fn now_s() -> f64 {
    use std::time::{SystemTime, UNIX_EPOCH};
    SystemTime::now()
        .duration_since(UNIX_EPOCH)
        .map(|d| d.as_secs_f64())
        .unwrap_or(0.0)
}
