// FL: harness formula language (filled in below)
