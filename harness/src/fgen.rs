//! FL — the harness's own formula language: a small AST with its own printer per
//! language/locale. Operands that are operators are always parenthesised, so the tree the
//! engine's parser builds from the printed text is exactly the tree that was generated.

use ironcalc_base::expressions::token::Error;
use ironcalc_base::language::{get_language, Language};
use ironcalc_base::locale::{get_locale, Locale};
use ironcalc_base::verif_hooks::all_functions;
use rand::rngs::StdRng;
use rand::Rng;
use std::collections::BTreeMap;

pub const LANGS: &[&str] = &["en", "es", "fr", "de", "it"];
pub const LOCALES: &[&str] = &["en", "en-GB", "es", "fr", "de", "it"];

#[derive(Clone, Debug, PartialEq)]
pub enum F {
    Num(String),
    Str(String),
    Bool(bool),
    Err(usize),
    /// a reference or range exactly as typed (A1 syntax is not localised)
    Ref(String),
    Bin(&'static str, Box<F>, Box<F>),
    Neg(Box<F>),
    Pct(Box<F>),
    At(Box<F>),
    Hash(Box<F>),
    RangeOp(Box<F>, Box<F>),
    /// English function name (Debug name of the engine's enum, e.g. "Sum")
    Call(&'static str, Vec<F>),
    Arr(Vec<Vec<F>>),
    /// a LAMBDA parameter / LET variable
    Var(&'static str),
    /// LAMBDA(params..., body)(args...) — immediately invoked
    LambdaCall(Vec<&'static str>, Box<F>, Vec<F>),
    /// LET(name, value, body)
    Let(&'static str, Box<F>, Box<F>),
}

pub struct Dialect {
    pub language: &'static Language,
    pub locale: &'static Locale,
    pub lang_id: String,
    pub locale_id: String,
    pub arg_sep: char,
    pub dec: char,
    pub arr_col: char,
    pub arr_row: char,
    fnames: BTreeMap<String, String>,
}

pub const ERRORS: &[Error] = &[Error::REF, Error::NAME, Error::VALUE, Error::DIV, Error::NA, Error::NUM, Error::NULL];

impl Dialect {
    pub fn new(lang_id: &str, locale_id: &str) -> Dialect {
        let language = get_language(lang_id).expect("language");
        let locale = get_locale(locale_id).expect("locale");
        let point = locale.numbers.symbols.decimal == ".";
        let mut fnames = BTreeMap::new();
        for f in all_functions() {
            fnames.insert(format!("{:?}", f), f.to_localized_name(language));
        }
        Dialect {
            language,
            locale,
            lang_id: lang_id.to_string(),
            locale_id: locale_id.to_string(),
            arg_sep: if point { ',' } else { ';' },
            dec: if point { '.' } else { ',' },
            // what the engine prints for array literals (stringify.rs)
            arr_col: if point { ',' } else { ';' },
            arr_row: if point { ';' } else { '/' },
            fnames,
        }
    }
    pub fn fname(&self, debug_name: &str) -> String {
        self.fnames.get(debug_name).cloned().unwrap_or_else(|| debug_name.to_uppercase())
    }
}

fn is_operator(f: &F) -> bool {
    matches!(f, F::Bin(..) | F::Neg(..) | F::Pct(..) | F::At(..) | F::Hash(..) | F::RangeOp(..))
}

fn operand(f: &F, d: &Dialect) -> String {
    if is_operator(f) {
        format!("({})", print(f, d))
    } else {
        print(f, d)
    }
}

pub fn print(f: &F, d: &Dialect) -> String {
    match f {
        F::Num(s) => s.replace('.', &d.dec.to_string()),
        F::Str(s) => format!("\"{}\"", s.replace('"', "\"\"")),
        F::Bool(b) => {
            if *b {
                d.language.booleans.r#true.clone()
            } else {
                d.language.booleans.r#false.clone()
            }
        }
        F::Err(i) => ERRORS[*i % ERRORS.len()].to_localized_error_string(d.language),
        F::Ref(r) => r.clone(),
        F::Bin(op, a, b) => format!("{}{}{}", operand(a, d), op, operand(b, d)),
        F::Neg(a) => format!("-{}", operand(a, d)),
        F::Pct(a) => format!("{}%", operand(a, d)),
        F::At(a) => format!("@{}", operand(a, d)),
        F::Hash(a) => format!("{}#", operand(a, d)),
        F::RangeOp(a, b) => format!("{}:{}", operand(a, d), operand(b, d)),
        F::Call(name, args) => {
            let parts: Vec<String> = args.iter().map(|a| print(a, d)).collect();
            format!("{}({})", d.fname(name), parts.join(&d.arg_sep.to_string()))
        }
        F::Var(v) => v.to_string(),
        F::LambdaCall(params, body, args) => {
            let sep = d.arg_sep.to_string();
            let mut inner: Vec<String> = params.iter().map(|p| p.to_string()).collect();
            inner.push(print(body, d));
            let args: Vec<String> = args.iter().map(|a| print(a, d)).collect();
            format!("{}({})({})", d.fname("Lambda"), inner.join(&sep), args.join(&sep))
        }
        F::Let(name, value, body) => {
            let sep = d.arg_sep.to_string();
            format!("{}({name}{sep}{}{sep}{})", d.fname("Let"), print(value, d), print(body, d))
        }
        F::Arr(rows) => {
            let parts: Vec<String> = rows
                .iter()
                .map(|r| r.iter().map(|c| print(c, d)).collect::<Vec<_>>().join(&d.arr_col.to_string()))
                .collect();
            format!("{{{}}}", parts.join(&d.arr_row.to_string()))
        }
    }
}

pub const BINOPS: &[&str] = &["=", "<>", "<", ">", "<=", ">=", "&", "+", "-", "*", "/", "^"];
pub const SHEETS: &[&str] = &["Sheet1", "Sheet2", "My Sheet"];

pub fn leaf(rng: &mut StdRng) -> F {
    match rng.gen_range(0..19) {
        16 => F::LambdaCall(
            vec!["a", "b"],
            Box::new(F::Bin("+", Box::new(F::Bin("*", Box::new(F::Var("a")), Box::new(F::Num("10".into())))), Box::new(F::Var("b")))),
            vec![F::Num("1".into()), F::Ref("B2".into())],
        ),
        17 => F::LambdaCall(vec!["x"], Box::new(F::Neg(Box::new(F::Var("x")))), vec![F::Num("2.5".into())]),
        18 => F::Let("v", Box::new(F::Num("3".into())), Box::new(F::Bin("&", Box::new(F::Var("v")), Box::new(F::Str("ab".into()))))),
        0 => F::Num("1".into()),
        1 => F::Num("2.5".into()),
        2 => F::Num("0".into()),
        3 => F::Str("ab".into()),
        4 => F::Str("q\"t".into()),
        5 => F::Bool(rng.gen_bool(0.5)),
        6 => F::Err(rng.gen_range(0..ERRORS.len())),
        7 => F::Ref("B2".into()),
        8 => F::Ref("$C$3".into()),
        9 => F::Ref("Sheet2!A$1".into()),
        10 => F::Ref("'My Sheet'!$D4".into()),
        11 => F::Ref("Ghost!A1".into()),
        12 => F::Ref("A1:B2".into()),
        13 => F::Ref("Sheet2!C1:D3".into()),
        14 => F::Arr(vec![vec![F::Num("1".into()), F::Str("x".into())], vec![F::Bool(true), F::Num("4.5".into())]]),
        _ => F::Call("Sum", vec![F::Ref("A1:A3".into()), F::Num("7".into())]),
    }
}

/// node kinds for the bounded-exhaustive enumeration: 12 binaries + 5 unaries/range
pub const KINDS: usize = 12 + 5;

pub fn build(kind: usize, a: F, b: F) -> F {
    if kind < BINOPS.len() {
        return F::Bin(BINOPS[kind], Box::new(a), Box::new(b));
    }
    match kind - BINOPS.len() {
        0 => F::Neg(Box::new(a)),
        1 => F::Pct(Box::new(a)),
        2 => F::At(Box::new(a)),
        3 => F::Hash(Box::new(a)),
        _ => {
            // a bare number next to ':' is read by the lexer as a row range ("0:1"); the
            // range operator is only generated between references, calls and operators
            let fix = |x: F, alt: &str| match x {
                F::Num(_) | F::Str(_) | F::Bool(_) | F::Err(_) | F::Arr(_) => F::Ref(alt.to_string()),
                F::Ref(r) if r.contains(':') => F::Ref(alt.to_string()),
                other => other,
            };
            F::RangeOp(Box::new(fix(a, "B2")), Box::new(fix(b, "$C$3")))
        }
    }
}

/// Does the tree contain `x+(y+z)` / `x+(y-z)`? The printer drops these parentheses on
/// purpose (an existing test pins 1+(3+5) -> 1+3+5); that class is judged on its own.
pub fn has_plus_right_nested(f: &F) -> bool {
    let here = matches!(f, F::Bin("+", _, b) if matches!(**b, F::Bin("+", ..) | F::Bin("-", ..)));
    if here {
        return true;
    }
    match f {
        F::Bin(_, a, b) | F::RangeOp(a, b) => has_plus_right_nested(a) || has_plus_right_nested(b),
        F::Neg(a) | F::Pct(a) | F::At(a) | F::Hash(a) => has_plus_right_nested(a),
        F::Call(_, args) => args.iter().any(has_plus_right_nested),
        _ => false,
    }
}

pub fn kind_name(kind: usize) -> &'static str {
    if kind < BINOPS.len() {
        BINOPS[kind]
    } else {
        ["neg", "pct", "at", "hash", "rangeop"][kind - BINOPS.len()]
    }
}

pub fn random_tree(rng: &mut StdRng, depth: u32) -> F {
    if depth == 0 || rng.gen_bool(0.25) {
        return leaf(rng);
    }
    match rng.gen_range(0..10) {
        0 => F::Call(
            *crate::util::pick(rng, &["If", "Max", "Sum", "Iferror", "Concat", "And"]),
            (0..rng.gen_range(1..=3)).map(|_| random_tree(rng, depth - 1)).collect(),
        ),
        _ => {
            let k = rng.gen_range(0..KINDS);
            if k == KINDS - 1 {
                // In random trees the range operator only takes the shapes spreadsheets use
                // (function:reference); the other operand shapes are judged class by class
                // in the bounded-exhaustive part (several are known lexer limitations).
                return F::RangeOp(
                    Box::new(F::Call("Offset", vec![F::Ref("B2".into()), F::Num("1".into()), F::Num("1".into())])),
                    Box::new(F::Ref("$C$3".into())),
                );
            }
            build(k, random_tree(rng, depth - 1), random_tree(rng, depth - 1))
        }
    }
}
