//! RE — the harness's reference evaluator for the core formula language (C05, C06).
//! Written from the spreadsheet rules (coercion, comparison, error propagation), not from
//! the engine's code. It works on the parsed tree the engine stores for a cell and asks an
//! environment for the values of the cells a formula reads. Anything outside the core
//! language, and every case where the reference rules are themselves uncertain (numeric
//! look-alike strings, numbers that print in scientific notation, comparisons decided by
//! the 15-digit rule), answers `Unsupported`: the monitor then has no opinion.

use ironcalc_base::expressions::parser::Node;
use ironcalc_base::expressions::token::{OpCompare, OpProduct, OpSum, OpUnary};
use ironcalc_base::types::{Cell, FormulaValue, SpillValue};
use ironcalc_base::Model;

#[derive(Clone, Debug, PartialEq)]
pub enum V {
    Num(f64),
    Str(String),
    Bool(bool),
    Err(String),
    Empty,
}

#[derive(Clone, Debug)]
pub struct Unsupported(pub String);

type R<T> = Result<T, Unsupported>;

fn unsup<T>(why: &str) -> R<T> {
    Err(Unsupported(why.to_string()))
}

/// what an expression denotes before it is used as a value
#[derive(Clone, Debug)]
pub enum A {
    Val(V),
    Cell(u32, i32, i32),
    Range(u32, i32, i32, i32, i32),
}

pub trait Env {
    /// current value of a cell (`Empty` for a blank cell)
    fn cell(&mut self, sheet: u32, row: i32, col: i32) -> R<V>;
    /// the non-blank positions of a rectangle in row-major order (for whole-row/column ranges)
    fn populated(&mut self, sheet: u32, r1: i32, c1: i32, r2: i32, c2: i32) -> R<Vec<(i32, i32)>>;
}

/// non-blank positions of a rectangle of the engine's sheet, row-major
pub fn populated_in(m: &Model, sheet: u32, r1: i32, c1: i32, r2: i32, c2: i32) -> R<Vec<(i32, i32)>> {
    let Some(ws) = m.workbook.worksheets.get(sheet as usize) else { return unsup("no such sheet") };
    let mut out = vec![];
    for (r, row) in &ws.sheet_data {
        if *r < r1 || *r > r2 {
            continue;
        }
        for c in row.keys() {
            if *c >= c1 && *c <= c2 {
                out.push((*r, *c));
            }
        }
    }
    out.sort();
    Ok(out)
}

/// The value the engine currently holds for a cell.
pub fn engine_value(m: &Model, sheet: u32, row: i32, col: i32) -> R<V> {
    let Some(ws) = m.workbook.worksheets.get(sheet as usize) else { return Ok(V::Err("#REF!".into())) };
    let Some(cell) = ws.sheet_data.get(&row).and_then(|r| r.get(&col)) else { return Ok(V::Empty) };
    let fv = |v: &FormulaValue| match v {
        FormulaValue::Unevaluated => unsup("unevaluated cell"),
        FormulaValue::Boolean(b) => Ok(V::Bool(*b)),
        FormulaValue::Number(n) => Ok(V::Num(*n)),
        FormulaValue::Text(s) => Ok(V::Str(s.clone())),
        FormulaValue::Error { ei, .. } => Ok(V::Err(ei.to_string())),
    };
    match cell {
        Cell::EmptyCell { .. } => Ok(V::Empty),
        Cell::BooleanCell { v, .. } => Ok(V::Bool(*v)),
        Cell::NumberCell { v, .. } => Ok(V::Num(*v)),
        Cell::ErrorCell { ei, .. } => Ok(V::Err(ei.to_string())),
        Cell::SharedString { si, .. } => match m.workbook.shared_strings.get(*si as usize) {
            Some(s) => Ok(V::Str(s.clone())),
            None => unsup("dangling shared string"),
        },
        Cell::CellFormula { v, .. } | Cell::ArrayFormula { v, .. } => fv(v),
        Cell::SpillCell { v, .. } => Ok(match v {
            SpillValue::Boolean(b) => V::Bool(*b),
            SpillValue::Number(n) => V::Num(*n),
            SpillValue::Text(s) => V::Str(s.clone()),
            SpillValue::Error(e) => V::Err(e.to_string()),
        }),
    }
}

/// The stored tree of a formula cell, if the cell is a plain (non-array) formula.
pub fn formula_node<'a>(m: &'a Model, sheet: u32, row: i32, col: i32) -> Option<&'a Node> {
    let ws = m.workbook.worksheets.get(sheet as usize)?;
    match ws.sheet_data.get(&row)?.get(&col)? {
        Cell::CellFormula { f, .. } => m.parsed_formulas.get(sheet as usize)?.get(*f as usize).map(|p| &p.0),
        _ => None,
    }
}

pub struct Eval<'e> {
    pub env: &'e mut dyn Env,
    pub sheet: u32,
    pub row: i32,
    pub col: i32,
    /// triggers of committed known findings this evaluation went through
    pub tags: std::collections::BTreeSet<&'static str>,
}

pub fn eval_at<'e>(env: &'e mut dyn Env, sheet: u32, row: i32, col: i32) -> Eval<'e> {
    Eval { env, sheet, row, col, tags: Default::default() }
}

fn simple_number(s: &str) -> Option<f64> {
    // only the plain decimal shapes are judged; every other numeric look-alike is left alone
    let t = s;
    if t.is_empty() || t.len() > 12 {
        return None;
    }
    let body = t.strip_prefix('-').unwrap_or(t);
    if body.is_empty() || !body.chars().all(|c| c.is_ascii_digit() || c == '.') || body.matches('.').count() > 1 || body.starts_with('.') || body.ends_with('.') {
        return None;
    }
    t.parse().ok()
}

fn looks_numeric(s: &str) -> bool {
    s.chars().any(|c| c.is_ascii_digit())
}

pub fn num_to_text(x: f64) -> R<String> {
    if x == 0.0 {
        return Ok("0".into());
    }
    let a = x.abs();
    if !(1e-4..1e15).contains(&a) {
        return unsup("number printed in scientific notation");
    }
    let rounded: f64 = format!("{:.14e}", x).parse().map_err(|_| Unsupported("fmt".into()))?;
    if rounded.abs() >= 1e15 {
        return unsup("number printed in scientific notation");
    }
    Ok(format!("{}", rounded))
}

impl<'e> Eval<'e> {
    fn value(&mut self, a: A) -> R<V> {
        match a {
            A::Val(v) => Ok(v),
            A::Cell(s, r, c) => self.env.cell(s, r, c),
            A::Range(..) => unsup("range used as a value"),
        }
    }

    fn to_num(&self, v: &V) -> R<Result<f64, String>> {
        Ok(match v {
            V::Num(n) => Ok(*n),
            V::Bool(b) => Ok(if *b { 1.0 } else { 0.0 }),
            V::Empty => Ok(0.0),
            V::Err(e) => Err(e.clone()),
            V::Str(s) => match simple_number(s) {
                Some(n) => Ok(n),
                None if looks_numeric(s) || s.trim() != s => return unsup("numeric look-alike text"),
                None => Err("#VALUE!".into()),
            },
        })
    }

    fn to_text(&mut self, v: &V) -> R<Result<String, String>> {
        Ok(match v {
            V::Num(n) => {
                let t = num_to_text(*n)?;
                // which zero an IEEE min/max/round hands over is not pinned down, so any zero counts
                if *n == 0.0 {
                    self.tags.insert("negative-zero-text");
                } else if t != format!("{}", n) {
                    self.tags.insert("number-text-precision");
                }
                Ok(t)
            }
            V::Bool(b) => Ok(if *b { "TRUE".into() } else { "FALSE".into() }),
            V::Empty => Ok(String::new()),
            V::Err(e) => Err(e.clone()),
            V::Str(s) => Ok(s.clone()),
        })
    }

    fn to_bool(&self, v: &V) -> R<Result<bool, String>> {
        Ok(match v {
            V::Num(n) => Ok(*n != 0.0),
            V::Bool(b) => Ok(*b),
            V::Empty => Ok(false),
            V::Err(e) => Err(e.clone()),
            V::Str(s) => match s.to_ascii_uppercase().as_str() {
                "TRUE" => Ok(true),
                "FALSE" => Ok(false),
                _ if looks_numeric(s) => return unsup("numeric look-alike text"),
                _ => Err("#VALUE!".into()),
            },
        })
    }

    fn finite(x: f64) -> V {
        if x.is_finite() {
            V::Num(x)
        } else {
            V::Err("#NUM!".into())
        }
    }

    fn arith(&mut self, left: &Node, right: &Node, f: &dyn Fn(f64, f64) -> V) -> R<A> {
        let l = self.eval(left)?;
        let l = self.value(l)?;
        let r = self.eval(right)?;
        let r = self.value(r)?;
        let a = match self.to_num(&l)? {
            Ok(a) => a,
            Err(e) => {
                // the right operand is still inspected for "no opinion" cases
                let _ = self.to_num(&r)?;
                return Ok(A::Val(V::Err(e)));
            }
        };
        let b = match self.to_num(&r)? {
            Ok(b) => b,
            Err(e) => return Ok(A::Val(V::Err(e))),
        };
        Ok(A::Val(f(a, b)))
    }

    fn compare(&self, l: &V, r: &V) -> R<Result<std::cmp::Ordering, String>> {
        use std::cmp::Ordering::*;
        if let V::Err(e) = l {
            return Ok(Err(e.clone()));
        }
        if let V::Err(e) = r {
            return Ok(Err(e.clone()));
        }
        // a blank takes the neutral value of the other side's type
        let fill = |x: &V, other: &V| -> V {
            if *x != V::Empty {
                return x.clone();
            }
            match other {
                V::Str(_) => V::Str(String::new()),
                V::Bool(_) => V::Bool(false),
                _ => V::Num(0.0),
            }
        };
        let (a, b) = (fill(l, r), fill(r, l));
        let rank = |x: &V| match x {
            V::Num(_) => 0,
            V::Str(_) => 1,
            _ => 2,
        };
        Ok(Ok(match (&a, &b) {
            (V::Num(x), V::Num(y)) => {
                if x == y {
                    Equal
                } else {
                    let scale = x.abs().max(y.abs());
                    if (x - y).abs() <= scale * 1e-11 {
                        return unsup("comparison decided by the 15-digit rule");
                    }
                    if x < y {
                        Less
                    } else {
                        Greater
                    }
                }
            }
            (V::Str(x), V::Str(y)) => {
                if !x.chars().chain(y.chars()).all(|c| c.is_ascii_alphanumeric() || c == ' ') {
                    return unsup("collation of non-alphanumeric text");
                }
                x.to_ascii_lowercase().cmp(&y.to_ascii_lowercase())
            }
            (V::Bool(x), V::Bool(y)) => x.cmp(y),
            _ => rank(&a).cmp(&rank(&b)),
        }))
    }

    /// the values a function argument contributes: (value, came_from_reference)
    fn flatten(&mut self, a: A, out: &mut Vec<(V, bool)>) -> R<()> {
        match a {
            A::Val(v) => out.push((v, false)),
            A::Cell(s, r, c) => out.push((self.env.cell(s, r, c)?, true)),
            A::Range(s, r1, c1, r2, c2) => {
                if (r2 - r1 + 1) as i64 * (c2 - c1 + 1) as i64 > 400 {
                    // blanks contribute nothing to any function of the core language
                    for (r, c) in self.env.populated(s, r1, c1, r2, c2)? {
                        out.push((self.env.cell(s, r, c)?, true));
                    }
                    return Ok(());
                }
                for r in r1..=r2 {
                    for c in c1..=c2 {
                        out.push((self.env.cell(s, r, c)?, true));
                    }
                }
            }
        }
        Ok(())
    }

    fn args_flat(&mut self, args: &[Node]) -> R<Vec<(V, bool)>> {
        let mut out = vec![];
        for a in args {
            let x = self.eval(a)?;
            let syntactic = matches!(a, Node::ReferenceKind { .. } | Node::RangeKind { .. });
            let from = out.len();
            let computed_ref = !syntactic && !matches!(x, A::Val(_));
            self.flatten(x, &mut out)?;
            // a reference handed over by IF / IFERROR: whether its text, logical or blank
            // content counts as "typed into the argument list" is not settled
            if computed_ref && out[from..].iter().any(|(v, _)| !matches!(v, V::Num(_) | V::Err(_))) {
                return unsup("non-numeric content behind a computed reference");
            }
        }
        Ok(out)
    }

    /// numbers an aggregate (SUM, MIN, MAX, AVERAGE) sees, or the first error
    fn aggregate_numbers(&mut self, args: &[Node]) -> R<Result<Vec<f64>, String>> {
        let mut nums = vec![];
        for (v, from_ref) in self.args_flat(args)? {
            match (&v, from_ref) {
                (V::Err(e), _) => return Ok(Err(e.clone())),
                (V::Num(n), _) => nums.push(*n),
                (_, true) => {}
                (V::Empty, false) => nums.push(0.0),
                (other, false) => match self.to_num(other)? {
                    Ok(n) => nums.push(n),
                    Err(e) => return Ok(Err(e)),
                },
            }
        }
        Ok(Ok(nums))
    }

    fn scalar_arg(&mut self, n: &Node) -> R<V> {
        let a = self.eval(n)?;
        self.value(a)
    }

    fn call(&mut self, name: &str, args: &[Node]) -> R<A> {
        if args.iter().any(|a| matches!(a, Node::EmptyArgKind)) {
            return unsup("empty argument");
        }
        let err = |e: String| Ok(A::Val(V::Err(e)));
        let val = |v: V| Ok(A::Val(v));
        match (name, args.len()) {
            ("If", 2) | ("If", 3) => {
                let c = self.scalar_arg(&args[0])?;
                match self.to_bool(&c)? {
                    Err(e) => err(e),
                    Ok(true) => self.eval(&args[1]),
                    Ok(false) => {
                        if args.len() == 3 {
                            self.eval(&args[2])
                        } else {
                            val(V::Bool(false))
                        }
                    }
                }
            }
            ("Iferror", 2) => {
                let x = self.eval(&args[0])?;
                let v = self.value(x.clone())?;
                if matches!(v, V::Err(_)) {
                    self.eval(&args[1])
                } else {
                    Ok(x)
                }
            }
            ("And", n) | ("Or", n) if n >= 1 => {
                let is_and = name == "And";
                let mut acc: Option<bool> = None;
                for (v, from_ref) in self.args_flat(args)? {
                    let b = match (&v, from_ref) {
                        // the engine documents short-circuit evaluation: an error met after the
                        // result is decided is a case the reference has no opinion on
                        (V::Err(_), _) if acc == Some(!is_and) => return unsup("error after AND/OR is decided"),
                        (V::Err(e), _) => return err(e.clone()),
                        (V::Str(_), true) | (V::Empty, true) => continue,
                        (V::Empty, false) => false,
                        (V::Str(s), false) if !matches!(s.to_ascii_uppercase().as_str(), "TRUE" | "FALSE") => return unsup("text argument of AND/OR"),
                        (other, _) => match self.to_bool(other)? {
                            Ok(b) => b,
                            Err(e) => return err(e),
                        },
                    };
                    acc = Some(match acc {
                        None => b,
                        Some(a) => {
                            if is_and {
                                a && b
                            } else {
                                a || b
                            }
                        }
                    });
                }
                match acc {
                    Some(b) => val(V::Bool(b)),
                    None => err("#VALUE!".into()),
                }
            }
            ("Not", 1) => {
                let v = self.scalar_arg(&args[0])?;
                match self.to_bool(&v)? {
                    Ok(b) => val(V::Bool(!b)),
                    Err(e) => err(e),
                }
            }
            ("Sum", n) if n >= 1 => match self.aggregate_numbers(args)? {
                Ok(nums) => val(Self::finite(nums.iter().fold(0.0, |a, b| a + b))),
                Err(e) => err(e),
            },
            ("Min", n) | ("Max", n) if n >= 1 => match {
                for a in args {
                    if !matches!(a, Node::ReferenceKind { .. } | Node::RangeKind { .. }) {
                        let x = self.eval(a)?;
                        if let A::Val(V::Bool(_)) | A::Val(V::Str(_)) = x {
                            self.tags.insert("minmax-value-arg");
                        }
                    }
                }
                self.aggregate_numbers(args)?
            } {
                Ok(nums) => {
                    let it = nums.iter().cloned();
                    let x = if name == "Min" { it.fold(f64::INFINITY, f64::min) } else { it.fold(f64::NEG_INFINITY, f64::max) };
                    val(V::Num(if nums.is_empty() { 0.0 } else { x }))
                }
                Err(e) => err(e),
            },
            ("Average", n) if n >= 1 => match self.aggregate_numbers(args)? {
                Ok(nums) if nums.is_empty() => err("#DIV/0!".into()),
                Ok(nums) => val(Self::finite(nums.iter().fold(0.0, |a, b| a + b) / nums.len() as f64)),
                Err(e) => err(e),
            },
            ("Count", n) if n >= 1 => {
                let mut k = 0;
                for (v, from_ref) in self.args_flat(args)? {
                    match (&v, from_ref) {
                        (V::Num(_), _) => k += 1,
                        (V::Bool(_), false) => k += 1,
                        (V::Str(s), false) => {
                            if simple_number(s).is_some() {
                                k += 1
                            } else if looks_numeric(s) {
                                return unsup("numeric look-alike text");
                            }
                        }
                        _ => {}
                    }
                }
                val(V::Num(k as f64))
            }
            ("Counta", n) if n >= 1 => {
                let k = self.args_flat(args)?.iter().filter(|(v, from_ref)| !(*v == V::Empty && *from_ref)).count();
                val(V::Num(k as f64))
            }
            ("Abs", 1) => {
                let v = self.scalar_arg(&args[0])?;
                match self.to_num(&v)? {
                    Ok(n) => val(V::Num(n.abs())),
                    Err(e) => err(e),
                }
            }
            ("Round", 2) => {
                let x = self.scalar_arg(&args[0])?;
                let d = self.scalar_arg(&args[1])?;
                let x = match self.to_num(&x)? {
                    Ok(n) => n,
                    Err(e) => {
                        let _ = self.to_num(&d)?;
                        return err(e);
                    }
                };
                let d = match self.to_num(&d)? {
                    Ok(n) => n.trunc(),
                    Err(e) => return err(e),
                };
                if d.abs() > 12.0 || x.abs() > 1e12 {
                    return unsup("rounding at the edge of double precision");
                }
                let p = 10f64.powi(d as i32);
                let y = x * p;
                // a tie that the binary representation cannot show is not judged
                let frac = (y.abs() - y.abs().floor() - 0.5).abs();
                if frac != 0.0 && frac < 1e-7 {
                    return unsup("rounding tie hidden by binary representation");
                }
                let r = (y.abs() + 0.5).floor() * y.signum() / p;
                // the sign of a zero result is kept as IEEE arithmetic gives it (it only shows in the negative-zero finding)
                val(Self::finite(if y == 0.0 { y } else { r }))
            }
            ("Len", 1) => {
                let v = self.scalar_arg(&args[0])?;
                match self.to_text(&v)? {
                    Ok(s) => val(V::Num(s.encode_utf16().count() as f64)),
                    Err(e) => err(e),
                }
            }
            ("Concat", n) if n >= 1 => {
                let mut s = String::new();
                for (v, _) in self.args_flat(args)? {
                    match self.to_text(&v)? {
                        Ok(t) => s.push_str(&t),
                        Err(e) => return err(e),
                    }
                }
                val(V::Str(s))
            }
            ("Isnumber", 1) => {
                let v = self.scalar_arg(&args[0])?;
                val(V::Bool(matches!(v, V::Num(_))))
            }
            ("Istext", 1) => {
                let v = self.scalar_arg(&args[0])?;
                val(V::Bool(matches!(v, V::Str(_))))
            }
            ("Isblank", 1) => {
                let v = self.scalar_arg(&args[0])?;
                val(V::Bool(v == V::Empty))
            }
            _ => unsup("function outside the core language"),
        }
    }

    pub fn eval(&mut self, n: &Node) -> R<A> {
        let val = |v: V| Ok(A::Val(v));
        match n {
            Node::BooleanKind(b) => val(V::Bool(*b)),
            Node::NumberKind(x) => val(V::Num(*x)),
            Node::StringKind(s) => val(V::Str(s.clone())),
            Node::ErrorKind(e) => val(V::Err(e.to_string())),
            Node::ReferenceKind { sheet_index, absolute_row, absolute_column, row, column, .. } => {
                let r = if *absolute_row { *row } else { *row + self.row };
                let c = if *absolute_column { *column } else { *column + self.col };
                if !(1..=1_048_576).contains(&r) || !(1..=16_384).contains(&c) {
                    return val(V::Err("#REF!".into()));
                }
                Ok(A::Cell(*sheet_index, r, c))
            }
            Node::RangeKind { sheet_index, absolute_row1, absolute_column1, row1, column1, absolute_row2, absolute_column2, row2, column2, .. } => {
                let r1 = if *absolute_row1 { *row1 } else { *row1 + self.row };
                let c1 = if *absolute_column1 { *column1 } else { *column1 + self.col };
                let r2 = if *absolute_row2 { *row2 } else { *row2 + self.row };
                let c2 = if *absolute_column2 { *column2 } else { *column2 + self.col };
                let (r1, r2) = (r1.min(r2), r1.max(r2));
                let (c1, c2) = (c1.min(c2), c1.max(c2));
                if r1 < 1 || c1 < 1 || r2 > 1_048_576 || c2 > 16_384 {
                    return val(V::Err("#REF!".into()));
                }
                Ok(A::Range(*sheet_index, r1, c1, r2, c2))
            }
            Node::WrongReferenceKind { .. } | Node::WrongRangeKind { .. } => val(V::Err("#REF!".into())),
            Node::OpSumKind { kind, left, right } => match kind {
                OpSum::Add => self.arith(left, right, &|a, b| Self::finite(a + b)),
                OpSum::Minus => self.arith(left, right, &|a, b| Self::finite(a - b)),
            },
            Node::OpProductKind { kind, left, right } => match kind {
                OpProduct::Times => self.arith(left, right, &|a, b| Self::finite(a * b)),
                OpProduct::Divide => self.arith(left, right, &|a, b| if b == 0.0 { V::Err("#DIV/0!".into()) } else { Self::finite(a / b) }),
            },
            Node::OpPowerKind { left, right } => {
                let r = self.arith(left, right, &|a, b| {
                    if a == 0.0 && b <= 0.0 {
                        // spreadsheets disagree on 0^0 (1 or #NUM!) and on the error kind of 0^-n
                        V::Str("\u{0}zero-power".into())
                    } else {
                        Self::finite(a.powf(b))
                    }
                })?;
                if matches!(&r, A::Val(V::Str(s)) if s == "\u{0}zero-power") {
                    return unsup("zero raised to a non-positive power");
                }
                Ok(r)
            }
            Node::OpConcatenateKind { left, right } => {
                let l = self.eval(left)?;
                let l = self.value(l)?;
                let r = self.eval(right)?;
                let r = self.value(r)?;
                let a = match self.to_text(&l) {
                    Ok(Ok(a)) => a,
                    Ok(Err(e)) => return val(V::Err(e)),
                    Err(u) => {
                        // an error on the right would not change a "no opinion"
                        return Err(u);
                    }
                };
                match self.to_text(&r)? {
                    Ok(b) => val(V::Str(a + &b)),
                    Err(e) => val(V::Err(e)),
                }
            }
            Node::CompareKind { kind, left, right } => {
                let l = self.eval(left)?;
                let l = self.value(l)?;
                let r = self.eval(right)?;
                let r = self.value(r)?;
                match self.compare(&l, &r)? {
                    Err(e) => val(V::Err(e)),
                    Ok(o) => {
                        use std::cmp::Ordering::*;
                        val(V::Bool(match kind {
                            OpCompare::Equal => o == Equal,
                            OpCompare::NonEqual => o != Equal,
                            OpCompare::LessThan => o == Less,
                            OpCompare::GreaterThan => o == Greater,
                            OpCompare::LessOrEqualThan => o != Greater,
                            OpCompare::GreaterOrEqualThan => o != Less,
                        }))
                    }
                }
            }
            Node::UnaryKind { kind, right } => {
                let r = self.eval(right)?;
                let r = self.value(r)?;
                match self.to_num(&r)? {
                    Err(e) => val(V::Err(e)),
                    Ok(x) => val(V::Num(match kind {
                        OpUnary::Minus => -x,
                        OpUnary::Percentage => x / 100.0,
                    })),
                }
            }
            Node::ImplicitIntersection { child, .. } => match self.eval(child)? {
                A::Range(..) => unsup("implicit intersection of a range"),
                other => Ok(other),
            },
            Node::FunctionKind { kind, args } => self.call(&format!("{:?}", kind), args),
            _ => unsup("construct outside the core language"),
        }
    }

    /// The value a cell holding this formula shows.
    pub fn cell_result(&mut self, n: &Node) -> R<V> {
        let a = self.eval(n)?;
        Ok(match self.value(a)? {
            V::Empty => V::Num(0.0),
            V::Num(x) if x == 0.0 => V::Num(0.0),
            v => v,
        })
    }
}

/// Same value, numbers to 1e-9 relative.
pub fn same(a: &V, b: &V) -> bool {
    match (a, b) {
        (V::Num(x), V::Num(y)) => x == y || (x - y).abs() <= 1e-9 * x.abs().max(y.abs()),
        _ => a == b,
    }
}

/// How a statically visible read is used: always evaluated and error-propagating,
/// under an error-absorbing function, or possibly not evaluated at all.
#[derive(Clone, Copy, PartialEq, Eq, PartialOrd, Ord, Debug)]
pub enum ReadKind {
    Strict,
    Absorbing,
    Lazy,
}

pub type Rect = (u32, i32, i32, i32, i32);

/// Cells a tree reads, statically: (sheet, r1, c1, r2, c2) rectangles with the way they are used.
pub fn static_reads(n: &Node, sheet: u32, row: i32, col: i32) -> Vec<(Rect, ReadKind)> {
    fn go(n: &Node, row: i32, col: i32, kind: ReadKind, out: &mut Vec<(Rect, ReadKind)>) {
        let mut here = kind;
        match n {
            Node::ReferenceKind { sheet_index, absolute_row, absolute_column, row: r, column: c, .. } => {
                let r = if *absolute_row { *r } else { *r + row };
                let c = if *absolute_column { *c } else { *c + col };
                out.push(((*sheet_index, r, c, r, c), kind));
            }
            Node::RangeKind { sheet_index, absolute_row1, absolute_column1, row1, column1, absolute_row2, absolute_column2, row2, column2, .. } => {
                let r1 = if *absolute_row1 { *row1 } else { *row1 + row };
                let c1 = if *absolute_column1 { *column1 } else { *column1 + col };
                let r2 = if *absolute_row2 { *row2 } else { *row2 + row };
                let c2 = if *absolute_column2 { *column2 } else { *column2 + col };
                out.push(((*sheet_index, r1.min(r2), c1.min(c2), r1.max(r2), c1.max(c2)), kind));
            }
            Node::FunctionKind { kind: f, .. } => {
                let name = format!("{:?}", f);
                let k = match name.as_str() {
                    "Sum" | "Min" | "Max" | "Average" | "Abs" | "Round" | "Len" | "Concat" | "Not" => ReadKind::Strict,
                    "Count" | "Counta" | "Isnumber" | "Istext" | "Isblank" | "Iferror" => ReadKind::Absorbing,
                    _ => ReadKind::Lazy,
                };
                here = here.max(k);
            }
            _ => {}
        }
        for c in crate::nodeutil::children(n) {
            go(c, row, col, here, out);
        }
    }
    let _ = sheet;
    let mut out = vec![];
    go(n, row, col, ReadKind::Strict, &mut out);
    out
}
