//! S — the observable snapshot: a deterministic projection of a model to a sorted
//! map `fact -> value`. Interned tables, style indices and sheet ids are not facts;
//! an absent cell and an empty cell carrying the style it would inherit are the same.

use ironcalc_base::types::*;
use ironcalc_base::{Model, UserModel};
use std::collections::BTreeMap;

pub type Snap = BTreeMap<String, String>;

#[derive(Clone, Copy, PartialEq)]
pub struct SnapOpts {
    pub view: bool,
    pub styles: bool,
    pub formatted: bool,
}

impl SnapOpts {
    pub const FULL: SnapOpts = SnapOpts {
        view: false,
        styles: true,
        formatted: true,
    };
    pub const VALUES: SnapOpts = SnapOpts {
        view: false,
        styles: false,
        formatted: false,
    };
}

pub fn style_by_index(st: &Styles, index: i32) -> Result<Style, String> {
    let xf = st
        .cell_xfs
        .get(index as usize)
        .ok_or_else(|| format!("bad xf index {index}"))?;
    Ok(Style {
        alignment: xf.alignment.clone(),
        num_fmt: ironcalc_base::number_format::get_num_fmt(xf.num_fmt_id, &st.num_fmts),
        fill: st
            .fills
            .get(xf.fill_id as usize)
            .ok_or("bad fill")?
            .clone(),
        font: st
            .fonts
            .get(xf.font_id as usize)
            .ok_or("bad font")?
            .clone(),
        border: st
            .borders
            .get(xf.border_id as usize)
            .ok_or("bad border")?
            .clone(),
        quote_prefix: xf.quote_prefix,
    })
}

pub fn inherited_style_index(ws: &Worksheet, row: i32, col: i32) -> i32 {
    for r in &ws.rows {
        if r.r == row {
            if r.custom_format {
                return r.s;
            }
            break;
        }
    }
    for c in &ws.cols {
        if col >= c.min && col <= c.max {
            return c.style.unwrap_or(0);
        }
    }
    0
}

fn style_str(st: &Styles, idx: i32) -> String {
    match style_by_index(st, idx) {
        Ok(s) => format!("{:?}", s),
        Err(e) => format!("ERR:{e}"),
    }
}

pub fn snapshot(um: &UserModel, o: SnapOpts) -> Snap {
    snapshot_model(um.get_model(), o)
}

pub fn cell_value_str(m: &Model, si: u32, row: i32, col: i32) -> String {
    match m.get_cell_value_by_index(si, row, col) {
        Ok(v) => format!("{:?}", v),
        Err(e) => format!("ERR:{e}"),
    }
}

pub fn array_structure(ws: &Worksheet, cell: &Cell) -> Option<String> {
    match cell {
        Cell::SpillCell { a, .. } => {
            let anchor = ws.sheet_data.get(&a.0).and_then(|r| r.get(&a.1));
            match anchor {
                Some(Cell::ArrayFormula { r, kind, .. }) => Some(format!(
                    "child({},{} {}x{} {:?})",
                    a.0, a.1, r.0, r.1, kind
                )),
                _ => Some(format!("child({},{} INVALID)", a.0, a.1)),
            }
        }
        Cell::ArrayFormula { r, kind, .. } => Some(format!("anchor({}x{} {:?})", r.0, r.1, kind)),
        _ => None,
    }
}

pub fn snapshot_model(m: &Model, o: SnapOpts) -> Snap {
    let mut s = Snap::new();
    let wb = &m.workbook;
    s.insert("wb.name".into(), wb.name.clone());
    s.insert("wb.locale".into(), wb.settings.locale.clone());
    s.insert("wb.tz".into(), wb.settings.tz.clone());
    if o.styles {
        s.insert("wb.theme".into(), format!("{:?}", wb.theme));
    }
    for (i, p) in m.get_worksheets_properties().iter().enumerate() {
        s.insert(
            format!("wb.sheet{i}"),
            format!("{} {} {:?}", p.name, p.state, p.color),
        );
    }
    let mut names = m.get_defined_name_list();
    names.sort();
    s.insert("wb.names".into(), format!("{:?}", names));
    if o.styles {
        let mut ns = m.get_named_style_list();
        ns.sort();
        for n in &ns {
            s.insert(
                format!("wb.namedstyle.{n}"),
                format!(
                    "{:?} {:?}",
                    m.get_named_style(n),
                    m.get_named_style_includes(n)
                ),
            );
        }
    }
    for (si, ws) in wb.worksheets.iter().enumerate() {
        let si = si as u32;
        let p = format!("s{si}");
        s.insert(
            format!("{p}.frozen"),
            format!("{},{}", ws.frozen_rows, ws.frozen_columns),
        );
        s.insert(format!("{p}.grid"), format!("{}", ws.show_grid_lines));
        if !ws.merge_cells.is_empty() {
            s.insert(format!("{p}.merge"), format!("{:?}", ws.merge_cells));
        }
        let mut links: Vec<String> = ws
            .links
            .iter()
            .map(|((r, c), l)| format!("R{r}C{c}={:?}", l))
            .collect();
        links.sort();
        for l in links {
            let (k, v) = l.split_once('=').unwrap();
            s.insert(format!("{p}!{k}.link"), v.to_string());
        }
        if !ws.conditional_formatting.is_empty() {
            s.insert(
                format!("{p}.cf"),
                format!("{:?}", ws.conditional_formatting),
            );
        }
        for (row, rd) in &ws.sheet_data {
            for (col, cell) in rd {
                let k = format!("{p}!R{row}C{col}");
                let content = m
                    .get_localized_cell_content(si, *row, *col)
                    .unwrap_or_else(|e| format!("ERR:{e}"));
                if !content.is_empty() {
                    s.insert(format!("{k}.content"), content);
                }
                let vs = cell_value_str(m, si, *row, *col);
                if vs != "None" {
                    s.insert(format!("{k}.value"), vs);
                    if o.formatted {
                        s.insert(
                            format!("{k}.fmt"),
                            m.get_formatted_cell_value(si, *row, *col)
                                .unwrap_or_else(|e| format!("ERR:{e}")),
                        );
                    }
                }
                if o.styles {
                    let inh = inherited_style_index(ws, *row, *col);
                    let own = cell.get_style();
                    if own != inh {
                        let st = style_str(&wb.styles, own);
                        let ist = style_str(&wb.styles, inh);
                        if st != ist {
                            s.insert(format!("{k}.style"), st);
                        }
                    }
                }
                if let Some(st) = array_structure(ws, cell) {
                    s.insert(format!("{k}.struct"), st);
                }
            }
        }
        let default_style = style_str(&wb.styles, 0);
        for r in &ws.rows {
            let h = r.height * ironcalc_base::ROW_HEIGHT_FACTOR;
            if (h - 25.0).abs() > 1e-9 {
                s.insert(format!("{p}.row{}.height", r.r), format!("{h}"));
            }
            if r.hidden {
                s.insert(format!("{p}.row{}.hidden", r.r), "true".into());
            }
            if o.styles && r.custom_format {
                let st = style_str(&wb.styles, r.s);
                if st != default_style {
                    s.insert(format!("{p}.row{}.style", r.r), st);
                }
            }
        }
        for c in &ws.cols {
            let mut cols: Vec<i32> = (c.min..=c.max.min(c.min + 30)).collect();
            if c.max > c.min + 30 {
                cols.push(c.max);
            }
            for col in cols {
                if col < 1 || col > 16384 {
                    s.insert(format!("{p}.col{col}.invalid"), "true".into());
                    continue;
                }
                let hidden = ws.is_column_hidden(col).unwrap_or(false);
                let aw = ws.get_actual_column_width(col).unwrap_or(-1.0);
                if (aw - 90.0).abs() > 1e-9 {
                    s.insert(format!("{p}.col{col}.width"), format!("{aw}"));
                }
                if hidden {
                    s.insert(format!("{p}.col{col}.hidden"), "true".into());
                }
                if o.styles {
                    if let Ok(Some(idx)) = ws.get_column_style(col) {
                        let st = style_str(&wb.styles, idx);
                        if st != default_style {
                            s.insert(format!("{p}.col{col}.style"), st);
                        }
                    }
                }
            }
        }
        if o.view {
            if let Some(v) = ws.views.get(&0) {
                s.insert(format!("{p}.view"), format!("{:?}", v));
            }
        }
    }
    if o.view {
        s.insert("wb.view".into(), format!("{:?}", wb.views.get(&0)));
    }
    s
}

pub type DiffEntry = (String, Option<String>, Option<String>);

pub fn diff(a: &Snap, b: &Snap) -> Vec<DiffEntry> {
    let mut out = vec![];
    for (k, v) in a {
        match b.get(k) {
            Some(w) if w == v => {}
            other => out.push((k.clone(), Some(v.clone()), other.cloned())),
        }
    }
    for (k, v) in b {
        if !a.contains_key(k) {
            out.push((k.clone(), None, Some(v.clone())));
        }
    }
    out
}

/// category of a fact key: coordinates erased
pub fn category(k: &str) -> String {
    let k = crate::util::erase_digits(k);
    // s#!R#C#.content -> cell.content ; s#.row#.height -> row.height ; wb.sheet# -> wb.sheet
    if let Some(rest) = k.strip_prefix("s#!R#C#.") {
        return format!("cell.{rest}");
    }
    if let Some(rest) = k.strip_prefix("s#.row#.") {
        return format!("row.{rest}");
    }
    if let Some(rest) = k.strip_prefix("s#.col#.") {
        return format!("col.{rest}");
    }
    if let Some(rest) = k.strip_prefix("s#.") {
        return format!("sheet.{rest}");
    }
    if k.starts_with("wb.namedstyle.") {
        return "wb.namedstyle".into();
    }
    k.replace('#', "")
}

pub fn categories(d: &[DiffEntry]) -> Vec<String> {
    let mut c: Vec<String> = d.iter().map(|e| category(&e.0)).collect();
    c.sort();
    c.dedup();
    c
}

pub fn describe(d: &[DiffEntry], limit: usize) -> String {
    let mut out = String::new();
    for (k, a, b) in d.iter().take(limit) {
        out.push_str(&format!(
            "{k}: {} -> {}; ",
            a.as_deref().unwrap_or("<absent>"),
            b.as_deref().unwrap_or("<absent>")
        ));
    }
    if d.len() > limit {
        out.push_str(&format!("… ({} facts differ)", d.len()));
    }
    out
}
