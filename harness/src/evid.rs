use serde_json::{json, Map, Value};
use std::collections::{BTreeMap, BTreeSet};

#[derive(Clone, Debug)]
pub struct Violation {
    /// which sub-check of the property fired
    pub check: String,
    /// narrow, seed-independent signature (used only to match committed known findings)
    pub sig: String,
    /// human-readable description (observed vs expected)
    pub detail: String,
    /// the case that reproduces it (fed back to `replay`)
    pub case: Value,
}

#[derive(Default, Clone, Debug)]
pub struct Stats {
    pub evaluations: u64,
    pub shapes: BTreeSet<String>,
    pub samples: Vec<Value>,
    pub counters: BTreeMap<String, u64>,
    pub sets: BTreeMap<String, BTreeSet<String>>,
    pub violations: Vec<Violation>,
    pub inconclusive: u64,
    pub notes: Vec<String>,
    pub extra: Map<String, Value>,
}

impl Stats {
    pub fn count(&mut self, k: &str) {
        *self.counters.entry(k.to_string()).or_insert(0) += 1;
    }
    pub fn add(&mut self, k: &str, n: u64) {
        *self.counters.entry(k.to_string()).or_insert(0) += n;
    }
    pub fn shape(&mut self, k: String) {
        self.shapes.insert(k);
    }
    pub fn set_add(&mut self, set: &str, v: String) {
        self.sets.entry(set.to_string()).or_default().insert(v);
    }
    pub fn sample(&mut self, v: Value) {
        if self.samples.len() < 6 {
            self.samples.push(v);
        }
    }
    pub fn violation(&mut self, check: &str, sig: String, detail: String, case: Value) {
        if self.violations.len() < 5000 {
            self.violations.push(Violation {
                check: check.to_string(),
                sig,
                detail,
                case,
            });
        }
    }
    pub fn merge(&mut self, o: Stats) {
        self.evaluations += o.evaluations;
        self.shapes.extend(o.shapes);
        for s in o.samples {
            self.sample(s);
        }
        for (k, v) in o.counters {
            *self.counters.entry(k).or_insert(0) += v;
        }
        for (k, v) in o.sets {
            self.sets.entry(k).or_default().extend(v);
        }
        for v in o.violations {
            if self.violations.len() < 50000 {
                self.violations.push(v);
            }
        }
        self.inconclusive += o.inconclusive;
        self.notes.extend(o.notes);
        for (k, v) in o.extra {
            self.extra.insert(k, v);
        }
    }
}

pub struct EvidenceMeta<'a> {
    pub property_id: &'a str,
    pub tier: &'a str,
    pub seed: u64,
    pub level: &'a str,
    pub rule: &'a str,
    pub assumptions: Vec<String>,
    pub exhaustive: bool,
}

#[allow(clippy::too_many_arguments)]
pub fn write_evidence(
    path: &str,
    meta: &EvidenceMeta,
    st: &Stats,
    wall_s: f64,
    unknown_violations: usize,
    known_lines: &[String],
    known_hits: &BTreeMap<String, u64>,
    fixed_checked: &[String],
) -> std::io::Result<()> {
    let mut cov = Map::new();
    cov.insert("evaluations".into(), json!(st.evaluations));
    cov.insert("distinct_nontrivial".into(), json!(st.shapes.len()));
    cov.insert("rule".into(), json!(meta.rule));
    cov.insert("samples".into(), Value::Array(st.samples.clone()));
    if meta.exhaustive {
        cov.insert("exhaustive".into(), json!(true));
    }
    cov.insert("counters".into(), json!(st.counters));
    let mut sets = Map::new();
    for (k, v) in &st.sets {
        let list: Vec<&String> = v.iter().take(600).collect();
        sets.insert(k.clone(), json!({"count": v.len(), "values": list}));
    }
    cov.insert("observed_sets".into(), Value::Object(sets));
    cov.insert("inconclusive".into(), json!(st.inconclusive));
    cov.insert("known_findings_reproduced".into(), json!(known_lines));
    cov.insert("known_hits_in_workload".into(), json!(known_hits));
    cov.insert("fixed_findings_rechecked".into(), json!(fixed_checked));
    if !st.notes.is_empty() {
        let n: Vec<&String> = st.notes.iter().take(40).collect();
        cov.insert("notes".into(), json!(n));
    }
    for (k, v) in &st.extra {
        cov.insert(k.clone(), v.clone());
    }
    let shapes: Vec<&String> = st.shapes.iter().take(40).collect();
    cov.insert("shape_key_examples".into(), json!(shapes));
    let ev = json!({
        "property_id": meta.property_id,
        "tier": meta.tier,
        "seed": meta.seed,
        "level": meta.level,
        "coverage": Value::Object(cov),
        "assumptions": meta.assumptions,
        "wall_s": (wall_s * 1000.0).round() / 1000.0,
        "violations": unknown_violations,
    });
    std::fs::write(path, serde_json::to_string_pretty(&ev).unwrap())
}
