//! C18 — re-entering a cell's displayed content reproduces the cell.
//! Oracle (metamorphic): for every cell, read the content the editor shows, type it back into
//! the same cell, and compare content text, value type, style and value (15 digits) before/after.

use super::{Ctx, PropInfo};
use crate::evid::{Stats, Violation};
use crate::fgen;
use crate::util::{guarded, pick};
use ironcalc_base::cell::CellValue;
use ironcalc_base::Model;
use rand::Rng;
use serde_json::{json, Value};
use std::time::Duration;

const INPUTS: &[&str] = &[
    "0", "1", "-1", "1234.5", "0.1", "1e3", "1E-7", "123456789012345", "1234567890123456789", "0.000001234", "12%", "-0.5%", "$5.50", "-$1,234.50", "€12", "1,234.5", "1,234,567",
    "2024-03-05", "3/5/2024", "5-Mar-2024", "March 5, 2024", "12:30", "12:30:15", "1:05 PM", "2024-03-05 12:30", "1/2", "1 1/2", "(5)", "+7", "1e308", "4.9e-324",
    "abc", "'123", "'TRUE", "'=1+1", "'#N/A", "'12%", "'2024-03-05", "''", "'", " 12 ", "1 2", "--5", "1e", "TRUE ", "true", "True", "FALSE", "TRUE", "#N/A", "#DIV/0!", "#VALUE!", "#REF!", "#NAME?", "#NUM!", "#NULL!",
    "#n/a", "=1/3", "=2/3*100", "=A1&\"x\"", "=TRUE", "=\"12\"", "=\"\"", "=1=1", "=#N/A", "=1/0", "=0.1+0.2", "=1e15+0.3", "=DATE(2024,3,5)", "=\"TRUE\"", "=12%", "=-0", "=SUM(A1:A3)", "=1e-7",
    "https://example.com", "a@b.co", "=\"line\"&CHAR(10)&\"two\"", "tab\there", "x\"y", "\u{e9}t\u{e9}", "1\u{a0}234", "٣", "１２", "1.", ".5", "5.", "1,5", "1.234,5", "12,5%", "5,50 €", "1 234,5",
];

/// everything C18 says must not change
fn facts(m: &Model, r: i32, c: i32) -> Vec<(String, String)> {
    let mut v = vec![];
    v.push(("content".to_string(), m.get_localized_cell_content(0, r, c).unwrap_or_else(|e| format!("ERR:{e}"))));
    v.push(("type".to_string(), format!("{:?}", m.get_cell_type(0, r, c))));
    v.push(("style".to_string(), format!("{:?}", m.get_style_for_cell(0, r, c))));
    let val = match m.get_cell_value_by_index(0, r, c) {
        Ok(CellValue::Number(x)) => format!("n:{:.14e}", if x == 0.0 { 0.0 } else { x }),
        other => format!("{:?}", other),
    };
    v.push(("value".to_string(), val));
    v
}

/// (fact that changed, class of the input, detail)
fn check(lang: &str, locale: &str, input: &str, styled: Option<&str>, st: &mut Stats) -> Option<(String, String)> {
    let lang_s: &'static str = fgen::LANGS.iter().find(|x| **x == lang).copied()?;
    let locale_s: &'static str = fgen::LOCALES.iter().find(|x| **x == locale).copied()?;
    let mut m = Model::new_empty("wb", locale_s, "UTC", lang_s).ok()?;
    let _ = m.set_user_input(0, 1, 1, "7".into());
    if let Some(fmt) = styled {
        let mut s = m.get_style_for_cell(0, 2, 2).ok()?;
        s.num_fmt = fmt.to_string();
        m.set_cell_style(0, 2, 2, &s).ok()?;
    }
    if guarded(|| m.set_user_input(0, 2, 2, input.to_string())).ok()?.is_err() {
        st.count("input_refused");
        return None;
    }
    m.evaluate();
    let before = facts(&m, 2, 2);
    let shown = before[0].1.clone();
    if guarded(|| m.set_user_input(0, 2, 2, shown.clone())).ok()?.is_err() {
        return Some(("refused".into(), format!("typing {input:?} gives a cell that shows {shown:?}, which set_user_input refuses")));
    }
    m.evaluate();
    st.evaluations += 1;
    let after = facts(&m, 2, 2);
    for (b, a) in before.iter().zip(after.iter()) {
        if b.1 != a.1 {
            return Some((b.0.clone(), format!("[{lang}/{locale}] typing {input:?}{} gives content {shown:?}; typing that back changes {}: {} -> {}", styled.map(|f| format!(" into a cell formatted {f:?}")).unwrap_or_default(), b.0, b.1.chars().take(200).collect::<String>(), a.1.chars().take(200).collect::<String>())));
        }
    }
    None
}

fn class_of(input: &str) -> String {
    if input.starts_with('=') {
        "formula".into()
    } else if input.starts_with('\'') {
        "quoted".into()
    } else if input.starts_with('#') {
        "error-literal".into()
    } else if input.chars().any(|c| c.is_ascii_digit()) {
        "number-like".into()
    } else if matches!(input.trim().to_ascii_lowercase().as_str(), "true" | "false") {
        "boolean-like".into()
    } else {
        "text".into()
    }
}

/// signature key: input class, and whether the cell was pre-formatted as a date/time
fn key_of(input: &str, styled: Option<&str>) -> String {
    let datefmt = styled.map(|f| f.contains('y') || f.contains("h:")).unwrap_or(false);
    format!("{}:{}", class_of(input), if datefmt { "date-format" } else { "other-format" })
}

fn run(ctx: &Ctx) -> Stats {
    let n = ctx.n(30_000, 2_000_000);
    let seed = ctx.seed;
    crate::par::run_cases(n, ctx.threads, Duration::from_secs(if ctx.quick() { 60 } else { 1500 }), |i, st| {
        let mut rng = crate::util::rng_for(seed, 18, i);
        let lang = fgen::LANGS[(i % 5) as usize];
        let locale = fgen::LOCALES[((i / 5) % 6) as usize];
        let mut input = (*pick(&mut rng, INPUTS)).to_string();
        // localised booleans and errors are what a user of that language types
        if rng.gen_bool(0.3) {
            let d = fgen::Dialect::new(lang, locale);
            input = match rng.gen_range(0..3) {
                0 => fgen::print(&fgen::F::Bool(rng.gen_bool(0.5)), &d),
                1 => fgen::print(&fgen::F::Err(rng.gen_range(0..fgen::ERRORS.len())), &d),
                _ => format!("={}", fgen::print(&fgen::F::Bin("+", Box::new(fgen::F::Num("2.5".into())), Box::new(fgen::F::Call("Sum", vec![fgen::F::Num("1".into()), fgen::F::Bool(true)]))), &d)),
            };
        }
        let styled = if rng.gen_bool(0.25) { Some(*pick(&mut rng, &["0.00", "@", "0%", "yyyy-mm-dd", "#,##0", "h:mm", "0.00E+00"])) } else { None };
        st.shape(format!("{}:{}", class_of(&input), styled.unwrap_or("-")));
        st.set_add("dialects", format!("{lang}/{locale}"));
        if i < 3 {
            st.sample(json!({"input": input, "language": lang, "locale": locale, "format": styled}));
        }
        if let Some((fact, detail)) = check(lang, locale, &input, styled, st) {
            ctx.report(st, "re-entry", format!("re-entry|{}|{}", key_of(&input, styled), fact), detail, json!({"language": lang, "locale": locale, "input": input, "format": styled}));
        }
    })
}

fn replay(_ctx: &Ctx, case: &Value) -> Vec<Violation> {
    let g = |k: &str| case.get(k).and_then(|v| v.as_str()).map(|s| s.to_string());
    let (Some(lang), Some(locale), Some(input)) = (g("language"), g("locale"), g("input")) else { return vec![] };
    let fmt = g("format");
    let mut st = Stats::default();
    match check(&lang, &locale, &input, fmt.as_deref(), &mut st) {
        Some((fact, detail)) => vec![Violation { check: "re-entry".into(), sig: format!("re-entry|{}|{}", key_of(&input, fmt.as_deref()), fact), detail, case: case.clone() }],
        None => vec![],
    }
}

pub fn props() -> Vec<PropInfo> {
    vec![PropInfo {
        id: "C18",
        level: "exploration",
        rule: "about 110 typed inputs (numbers in every notation, percentages, currencies, dates, times, fractions, numeric/boolean/error/formula look-alikes with a quote prefix, booleans in several cases, error literals, formulas of every result type, text with controls and non-ASCII digits, comma-decimal forms) plus booleans, error literals and formulas printed in the cell's language, typed into a plain cell or one pre-formatted with one of 7 number formats, in each of 5 languages x 6 locales; the displayed content is typed back and content text, cell type, resolved style and value (15 digits) must be unchanged; shape key = (input class, pre-set format)",
        assumptions: &["the displayed content is Model::get_localized_cell_content; the re-entry uses Model::set_user_input on the same cell", "inputs the engine refuses are not judged"],
        run,
        replay,
    }]
}
