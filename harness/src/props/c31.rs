//! C31 — dynamic-array spills are exact and never stale.
//! Oracle: a state walker run after every step of random histories. It derives, from the
//! workbook alone, what every dynamic-array anchor must look like: the block its declared
//! result covers is filled with spill cells owned by it (or it shows #SPILL! and owns none),
//! every spill cell is owned by an anchor whose block covers it, typed content is never
//! replaced by a spill, and for a family of formulas whose result the harness can compute
//! itself (SEQUENCE, range, range*k, TRANSPOSE) shape and elements are compared.

use super::{Ctx, PropInfo};
use crate::evid::{Stats, Violation};
use crate::ops::{self, GenCfg, Op};
use crate::refeval::{engine_value, V};
use crate::util::{col_name, guarded, pick};
use ironcalc_base::types::{ArrayKind, Cell};
use ironcalc_base::Model;
use rand::Rng;
use serde_json::{json, Value};
use std::time::Duration;

const LAST_ROW: i32 = 1_048_576;
const LAST_COL: i32 = 16_384;

fn parse_a1(s: &str) -> Option<(i32, i32)> {
    let s = s.replace('$', "");
    let letters: String = s.chars().take_while(|c| c.is_ascii_alphabetic()).collect();
    let digits: String = s.chars().skip(letters.len()).collect();
    if letters.is_empty() || digits.is_empty() || !digits.chars().all(|c| c.is_ascii_digit()) {
        return None;
    }
    let col = letters.chars().fold(0i32, |a, c| a * 26 + (c.to_ascii_uppercase() as i32 - 64));
    Some((digits.parse().ok()?, col))
}

fn parse_range(s: &str) -> Option<(i32, i32, i32, i32)> {
    let (a, b) = s.split_once(':')?;
    let (r1, c1) = parse_a1(a)?;
    let (r2, c2) = parse_a1(b)?;
    Some((r1.min(r2), c1.min(c2), r1.max(r2), c1.max(c2)))
}

enum Known {
    /// rows, cols, start, step
    Sequence(i32, i32, f64, f64),
    /// source rectangle, factor, transposed
    Range((i32, i32, i32, i32), Option<f64>, bool),
}

fn classify(text: &str) -> Option<Known> {
    let t = text.strip_prefix('=')?;
    if let Some(args) = t.strip_prefix("SEQUENCE(").and_then(|x| x.strip_suffix(')')) {
        let a: Vec<f64> = args.split(',').map(|x| x.trim().parse::<f64>()).collect::<Result<_, _>>().ok()?;
        return match a.as_slice() {
            [m] => Some(Known::Sequence(*m as i32, 1, 1.0, 1.0)),
            [m, n] => Some(Known::Sequence(*m as i32, *n as i32, 1.0, 1.0)),
            [m, n, s, d] => Some(Known::Sequence(*m as i32, *n as i32, *s, *d)),
            _ => None,
        };
    }
    if let Some(r) = t.strip_prefix("TRANSPOSE(").and_then(|x| x.strip_suffix(')')) {
        return Some(Known::Range(parse_range(r)?, None, true));
    }
    if let Some((r, k)) = t.split_once('*') {
        return Some(Known::Range(parse_range(r)?, Some(k.parse().ok()?), false));
    }
    Some(Known::Range(parse_range(t)?, None, false))
}

fn cell_at<'a>(m: &'a Model, s: u32, r: i32, c: i32) -> Option<&'a Cell> {
    m.workbook.worksheets.get(s as usize)?.sheet_data.get(&r)?.get(&c)
}

/// (check, detail)
/// anchors (sheet, row, col) that read, directly or through other arrays, a block that
/// depends on themselves: their elements are C05's business, not this walker's
fn anchors_on_cycles(m: &Model) -> std::collections::BTreeSet<(u32, i32, i32)> {
    let mut nodes: Vec<((u32, i32, i32), (i32, i32, i32, i32), Option<(i32, i32, i32, i32)>)> = vec![];
    for (si, ws) in m.workbook.worksheets.iter().enumerate() {
        for (r, row) in &ws.sheet_data {
            for (c, cell) in row {
                if let Cell::ArrayFormula { r: dims, .. } = cell {
                    let src = m.get_cell_formula(si as u32, *r, *c).ok().flatten().and_then(|t| classify(&t)).and_then(|k| match k {
                        Known::Range(src, ..) => Some(src),
                        _ => None,
                    });
                    nodes.push(((si as u32, *r, *c), (*r, *c, *r + dims.1 - 1, *c + dims.0 - 1), src));
                }
            }
        }
    }
    let n = nodes.len();
    let hits = |src: &(i32, i32, i32, i32), blk: &(i32, i32, i32, i32)| !(src.2 < blk.0 || src.0 > blk.2 || src.3 < blk.1 || src.1 > blk.3);
    let mut reach = vec![vec![false; n]; n];
    for i in 0..n {
        for j in 0..n {
            if nodes[i].0 .0 == nodes[j].0 .0 {
                if let Some(src) = &nodes[i].2 {
                    reach[i][j] = hits(src, &nodes[j].1);
                }
            }
        }
    }
    for k in 0..n {
        for i in 0..n {
            for j in 0..n {
                if reach[i][k] && reach[k][j] {
                    reach[i][j] = true;
                }
            }
        }
    }
    let mut out = std::collections::BTreeSet::new();
    for i in 0..n {
        if reach[i][i] || (0..n).any(|j| reach[i][j] && reach[j][j]) {
            out.insert(nodes[i].0);
        }
    }
    out
}

fn walk_spills(m: &Model, st: &mut Stats) -> Option<(String, String)> {
    let cyclic = anchors_on_cycles(m);
    for (si, ws) in m.workbook.worksheets.iter().enumerate() {
        let s = si as u32;
        for (r, row) in &ws.sheet_data {
            for (c, cell) in row {
                match cell {
                    Cell::SpillCell { a, .. } => {
                        // never stale: the owner exists and its block covers this cell
                        match cell_at(m, s, a.0, a.1) {
                            Some(Cell::ArrayFormula { r: dims, .. }) => {
                                let inside = *r >= a.0 && *r < a.0 + dims.1 && *c >= a.1 && *c < a.1 + dims.0 && (*r, *c) != *a;
                                if !inside {
                                    return Some(("stale-spill".into(), format!("spill cell s{si}!R{r}C{c} names anchor R{}C{} whose block is {}x{}", a.0, a.1, dims.0, dims.1)));
                                }
                            }
                            other => return Some(("orphan-spill".into(), format!("spill cell s{si}!R{r}C{c} names anchor R{}C{}, which holds {:?}", a.0, a.1, other.map(|x| format!("{:?}", x).chars().take(40).collect::<String>())))),
                        }
                        st.count("spill_cells_checked");
                    }
                    Cell::ArrayFormula { r: dims, kind: ArrayKind::Dynamic, .. } => {
                        let shown = engine_value(m, s, *r, *c).ok();
                        let is_spill_error = shown == Some(V::Err("#SPILL!".into()));
                        // block ownership
                        let (w, h) = *dims;
                        let mut owned = 0;
                        for rr in *r..*r + h {
                            for cc in *c..*c + w {
                                if (rr, cc) == (*r, *c) {
                                    continue;
                                }
                                match cell_at(m, s, rr, cc) {
                                    Some(Cell::SpillCell { a, .. }) if *a == (*r, *c) => owned += 1,
                                    other => {
                                        return Some(("block-hole".into(), format!("anchor s{si}!R{r}C{c} declares a {w}x{h} block but R{rr}C{cc} holds {:?}", other.map(|x| format!("{:?}", x).chars().take(40).collect::<String>()))));
                                    }
                                }
                            }
                        }
                        // (an anchor may legitimately show a #SPILL! that is the first ELEMENT of its
                        // result, handed over by its source, and own a filled block)
                        let _ = owned;
                        st.count("anchors_checked");
                        // family with a result the harness computes itself
                        let Ok(Some(text)) = m.get_cell_formula(s, *r, *c) else { continue };
                        let Some(known) = classify(&text) else { continue };
                        let (eh, ew) = match &known {
                            Known::Sequence(mm, nn, ..) => (*mm, *nn),
                            Known::Range(src, _, tr) => {
                                let (hh, ww) = (src.2 - src.0 + 1, src.3 - src.1 + 1);
                                if *tr { (ww, hh) } else { (hh, ww) }
                            }
                        };
                        if eh < 1 || ew < 1 || eh as i64 * ew as i64 > 400 {
                            continue;
                        }
                        if let Known::Range(src, ..) = &known {
                            // a source that overlaps the formula's own block is a cycle: not judged
                            if !(src.2 < *r || src.0 > *r + eh - 1 || src.3 < *c || src.1 > *c + ew - 1) {
                                continue;
                            }
                            // errors in the source travel into the result (a #SPILL! or #CIRC! shown by
                            // the anchor may then be an element, not a verdict on this formula's block)
                            let mut source_errors = false;
                            for rr in src.0..=src.2 {
                                for cc in src.1..=src.3 {
                                    if matches!(engine_value(m, s, rr, cc), Ok(V::Err(_)) | Err(_)) {
                                        source_errors = true;
                                    }
                                }
                            }
                            if source_errors {
                                st.count("known_family_skipped_source_errors");
                                continue;
                            }
                        }
                        let off_grid = *r + eh - 1 > LAST_ROW || *c + ew - 1 > LAST_COL;
                        let mut blocked = off_grid;
                        if !off_grid {
                            for rr in *r..*r + eh {
                                for cc in *c..*c + ew {
                                    if (rr, cc) == (*r, *c) {
                                        continue;
                                    }
                                    match cell_at(m, s, rr, cc) {
                                        None | Some(Cell::EmptyCell { .. }) => {}
                                        Some(Cell::SpillCell { a, .. }) if *a == (*r, *c) => {}
                                        Some(_) => blocked = true,
                                    }
                                }
                            }
                        }
                        if blocked {
                            st.count("blocked_spills_checked");
                            if !is_spill_error {
                                return Some(("blocked-not-spill-error".into(), format!("anchor s{si}!R{r}C{c} {text} needs a {ew}x{eh} block that is occupied or off the grid, but shows {:?}", shown)));
                            }
                            continue;
                        }
                        if is_spill_error {
                            return Some(("free-block-spill-error".into(), format!("anchor s{si}!R{r}C{c} {text} shows #SPILL! although its {ew}x{eh} block is free")));
                        }
                        if (w, h) != (ew, eh) {
                            return Some(("shape".into(), format!("anchor s{si}!R{r}C{c} {text} declares {w}x{h}, its result is {ew}x{eh}")));
                        }
                        if cyclic.contains(&(s, *r, *c)) {
                            st.count("known_family_skipped_arrays_reading_each_other");
                            continue;
                        }
                        // elements
                        for i in 0..eh {
                            for j in 0..ew {
                                let want: Option<f64> = match &known {
                                    Known::Sequence(_, nn, start, step) => Some(start + step * (i * nn + j) as f64),
                                    Known::Range(src, k, tr) => {
                                        let (sr, sc) = if *tr { (src.0 + j, src.1 + i) } else { (src.0 + i, src.1 + j) };
                                        match engine_value(m, s, sr, sc) {
                                            Ok(V::Num(x)) => Some(x * k.unwrap_or(1.0)),
                                            Ok(V::Empty) => Some(0.0),
                                            _ => None,
                                        }
                                    }
                                };
                                let Some(want) = want else { continue };
                                let got = engine_value(m, s, *r + i, *c + j).ok();
                                if got == Some(V::Err("#CIRC!".into())) {
                                    // arrays reading each other's blocks: the cycle clauses belong to C05
                                    st.count("elements_skipped_on_reference_cycle");
                                    continue;
                                }
                                let ok = matches!(&got, Some(V::Num(x)) if (x - want).abs() <= 1e-9 * want.abs().max(1.0));
                                if !ok {
                                    return Some(("element".into(), format!("anchor s{si}!R{r}C{c} {text}: element ({i},{j}) at R{}C{} shows {:?}, should be {want}", *r + i, *c + j, got)));
                                }
                                st.count("elements_checked");
                            }
                        }
                        st.count("known_family_results_checked");
                    }
                    _ => {}
                }
            }
        }
    }
    None
}

fn gen_history(rng: &mut rand::rngs::StdRng, cfg: &GenCfg) -> Vec<Op> {
    let mut um = ops::new_user_model(1);
    let mut list = vec![];
    let edge = rng.gen_bool(0.15);
    for _ in 0..rng.gen_range(4..26) {
        let (r, c) = if edge && rng.gen_bool(0.5) { (LAST_ROW - rng.gen_range(0..3), LAST_COL - rng.gen_range(0..3)) } else { (rng.gen_range(1..=9), rng.gen_range(1..=7)) };
        let op = match rng.gen_range(0..10) {
            0..=3 => {
                let (r1, c1) = (rng.gen_range(1..=8), rng.gen_range(1..=6));
                let src = format!("{}{}:{}{}", col_name(c1), r1, col_name(c1 + rng.gen_range(0..3)), r1 + rng.gen_range(0..3));
                let f = match rng.gen_range(0..6) {
                    0 => format!("=SEQUENCE({})", rng.gen_range(1..5)),
                    1 => format!("=SEQUENCE({},{})", rng.gen_range(1..4), rng.gen_range(1..4)),
                    2 => format!("=SEQUENCE({},{},{},{})", rng.gen_range(1..4), rng.gen_range(1..4), rng.gen_range(-3..9), rng.gen_range(-2..4)),
                    3 => format!("={src}*{}", pick(rng, &["2", "-1", "0.5", "10"])),
                    4 => format!("=TRANSPOSE({src})"),
                    _ => format!("={src}"),
                };
                Op::Input(0, r, c, f)
            }
            4..=5 => Op::Input(0, r, c, (*pick(rng, &["7", "-2.5", "x", "0", "100"])).to_string()),
            _ => ops::gen_op_avoiding(rng, &um, cfg),
        };
        if matches!(op, Op::SetLocale(_) | Op::SetLanguage(_) | Op::SetTimezone(_)) {
            continue;
        }
        if guarded(|| ops::apply(&mut um, &op)).is_err() {
            break;
        }
        list.push(op);
    }
    list
}

/// (step, check, detail)
fn first(list: &[Op], st: &mut Stats) -> Option<(usize, String, String)> {
    let mut um = ops::new_user_model(1);
    for (i, op) in list.iter().enumerate() {
        if guarded(|| ops::apply(&mut um, op)).is_err() {
            st.count("history_panicked");
            return None;
        }
        if guarded(|| um.evaluate()).is_err() {
            return None;
        }
        st.evaluations += 1;
        st.set_add("ops_checked_after", ops::kind(op));
        // typed content is never replaced by a spill
        if let Op::Input(s, r, c, t) = op {
            if !t.starts_with('=') && !t.is_empty() {
                if let Some(Cell::SpillCell { .. }) = cell_at(um.get_model(), *s, *r, *c) {
                    return Some((i, "content-overwritten".into(), format!("{t:?} typed into R{r}C{c} was replaced by a spill")));
                }
            }
        }
        if let Some((check, detail)) = walk_spills(um.get_model(), st) {
            return Some((i, check, format!("after {}: {detail}", ops::kind(op))));
        }
    }
    None
}

fn run(ctx: &Ctx) -> Stats {
    let n = ctx.n(30_000, 2_000_000);
    let seed = ctx.seed;
    crate::par::run_cases(n, ctx.threads, Duration::from_secs(if ctx.quick() { 80 } else { 1500 }), |i, st| {
        let mut rng = crate::util::rng_for(seed, 31, i);
        let mut avoid: Vec<&str> = vec!["formulas", "cse_arrays", "dyn_arrays", "names", "locale", "paste", "autofill"];
        if i % 2 == 0 {
            avoid.push("structural");
        }
        let mut cfg = GenCfg::new(&avoid);
        cfg.rows = 9;
        cfg.cols = 7;
        cfg.edges = false;
        let list = gen_history(&mut rng, &cfg);
        st.shape(format!("{}:{}", i % 2, list.len() / 4));
        if i < 2 {
            st.sample(json!({"ops": list.iter().take(8).collect::<Vec<_>>()}));
        }
        if let Some((at, check, _)) = first(&list, st) {
            let mut small: Vec<Op> = list[..=at].to_vec();
            let mut j = small.len();
            while j > 0 {
                j -= 1;
                let mut cand = small.clone();
                cand.remove(j);
                let mut scratch = Stats::default();
                if matches!(first(&cand, &mut scratch), Some((_, c2, _)) if c2 == check) {
                    small = cand;
                }
            }
            let mut scratch = Stats::default();
            if let Some((at, check, detail)) = first(&small, &mut scratch) {
                let after = small.get(at).map(ops::kind).unwrap_or_default();
                ctx.report(st, &check, format!("{check}|{after}|"), detail, json!({"ops": small}));
            }
        }
    })
}

fn replay(_ctx: &Ctx, case: &Value) -> Vec<Violation> {
    let Ok(list) = serde_json::from_value::<Vec<Op>>(case.get("ops").cloned().unwrap_or(Value::Null)) else { return vec![] };
    let mut st = Stats::default();
    match first(&list, &mut st) {
        Some((at, check, detail)) => {
            let after = list.get(at).map(ops::kind).unwrap_or_default();
            vec![Violation { check: check.clone(), sig: format!("{check}|{after}|"), detail, case: case.clone() }]
        }
        None => vec![],
    }
}

pub fn props() -> Vec<PropInfo> {
    vec![PropInfo {
        id: "C31",
        level: "exploration",
        rule: "random UserModel histories mixing dynamic-array formulas (SEQUENCE with 1, 2 and 4 arguments, a range, a range times a constant, TRANSPOSE of a range; some at the last rows/columns of the grid), plain content typed into and around their blocks, and the history engine's non-formula operations (clears, styles, undo/redo; in half of the histories also row/column insert, delete and move); after every step and an evaluate() a walker checks every anchor and every spill cell: block filled and owned, #SPILL! exactly when the block computed by the harness is occupied or off the grid, no stale or orphan spill cells, typed content never replaced, shape and elements equal to the harness's own computation; shape key = (structural?, history length class)",
        assumptions: &["elements are computed from the values the engine shows for the source cells (numbers and blanks only)", "a range formula whose source overlaps its own block is not judged"],
        run,
        replay,
    }]
}
