//! Structure engine: C12 (insert preserves), C13 (delete shifts and breaks only what was
//! deleted), C14 (insert then delete is the identity), C15 (moves are pure permutations).
//!
//! RS — the reference-shift model: `map_pos` maps a position through an edit; a formula
//! is expected to read the image of what it read before.

use super::{Ctx, PropInfo};
use crate::evid::{Stats, Violation};
use crate::nodeutil::{contains_parse_error, walk};
use crate::ops::{self, Op};
use crate::snap::{self, Snap, SnapOpts};
use crate::util::{col_name, guarded};
use ironcalc_base::expressions::parser::{Node, Parser};
use ironcalc_base::expressions::types::CellReferenceRC;
use ironcalc_base::UserModel;
use rand::rngs::StdRng;
use rand::Rng;
use serde::{Deserialize, Serialize};
use serde_json::{json, Value};
use std::collections::HashMap;
use std::time::Duration;

const LAST_ROW: i32 = 1_048_576;
const LAST_COL: i32 = 16_384;

#[derive(Clone, Copy, Debug, PartialEq, Serialize, Deserialize)]
pub enum EditKind {
    InsertRows,
    InsertCols,
    DeleteRows,
    DeleteCols,
    MoveRows,
    MoveCols,
}

#[derive(Clone, Debug, PartialEq, Serialize, Deserialize)]
pub struct Edit {
    pub kind: EditKind,
    pub sheet: u32,
    pub at: i32,
    pub count: i32,
    pub delta: i32,
}

impl Edit {
    fn op(&self) -> Op {
        match self.kind {
            EditKind::InsertRows => Op::InsertRows(self.sheet, self.at, self.count),
            EditKind::InsertCols => Op::InsertCols(self.sheet, self.at, self.count),
            EditKind::DeleteRows => Op::DeleteRows(self.sheet, self.at, self.count),
            EditKind::DeleteCols => Op::DeleteCols(self.sheet, self.at, self.count),
            EditKind::MoveRows => Op::MoveRows(self.sheet, self.at, self.count, self.delta),
            EditKind::MoveCols => Op::MoveCols(self.sheet, self.at, self.count, self.delta),
        }
    }
    fn rows(&self) -> bool {
        matches!(self.kind, EditKind::InsertRows | EditKind::DeleteRows | EditKind::MoveRows)
    }
    /// image of a line index (row or column) under the edit; None = deleted
    fn map_line(&self, x: i32) -> Option<i32> {
        let (p, k, d) = (self.at, self.count, self.delta);
        match self.kind {
            EditKind::InsertRows | EditKind::InsertCols => Some(if x >= p { x + k } else { x }),
            EditKind::DeleteRows | EditKind::DeleteCols => {
                if x < p {
                    Some(x)
                } else if x < p + k {
                    None
                } else {
                    Some(x - k)
                }
            }
            EditKind::MoveRows | EditKind::MoveCols => {
                if x >= p && x < p + k {
                    Some(x + d)
                } else if d > 0 && x >= p + k && x < p + k + d {
                    Some(x - k)
                } else if d < 0 && x >= p + d && x < p {
                    Some(x + k)
                } else {
                    Some(x)
                }
            }
        }
    }
    /// RS: image of a cell position on `sheet`
    pub fn map_pos(&self, sheet: u32, r: i32, c: i32) -> Option<(i32, i32)> {
        if sheet != self.sheet {
            return Some((r, c));
        }
        if self.rows() {
            self.map_line(r).map(|r2| (r2, c))
        } else {
            self.map_line(c).map(|c2| (r, c2))
        }
    }
}

/// what a formula reads: (sheet index, r1, c1, r2, c2), absolute coordinates
type Target = (u32, i32, i32, i32, i32);

fn targets_of(node: &Node, ctx: &CellReferenceRC) -> Vec<Target> {
    let abs = |v: i32, a: bool, o: i32| if a { v } else { v + o };
    let mut out = vec![];
    walk(node, &mut |x| match x {
        Node::ReferenceKind { sheet_index, absolute_row, absolute_column, row, column, .. } => {
            let (r, c) = (abs(*row, *absolute_row, ctx.row), abs(*column, *absolute_column, ctx.column));
            out.push((*sheet_index, r, c, r, c));
        }
        Node::RangeKind { sheet_index, absolute_row1, absolute_column1, row1, column1, absolute_row2, absolute_column2, row2, column2, .. } => {
            out.push((
                *sheet_index,
                abs(*row1, *absolute_row1, ctx.row),
                abs(*column1, *absolute_column1, ctx.column),
                abs(*row2, *absolute_row2, ctx.row),
                abs(*column2, *absolute_column2, ctx.column),
            ));
        }
        _ => {}
    });
    out
}

enum Expect {
    /// the reference must now read this target
    Same(Target),
    /// the reference pointed at a deleted cell or was pushed off the grid: #REF!
    RefError,
    /// the statement does not say what happens to this reference
    Silent,
}

/// RS: what a reference must read after the edit
fn expected_target(e: &Edit, t: &Target, moving: bool) -> Expect {
    let (ts, a, b, c2, d) = *t;
    if ts != e.sheet {
        return Expect::Same(*t);
    }
    // a whole-column range is not touched by row edits, a whole-row range not by column edits
    if (e.rows() && a == 1 && c2 == LAST_ROW) || (!e.rows() && b == 1 && d == LAST_COL) {
        return Expect::Same(*t);
    }
    let single = (a, b) == (c2, d);
    match (e.map_pos(ts, a, b), e.map_pos(ts, c2, d)) {
        (Some(x), Some(y)) => {
            if moving && !single {
                // ranges follow their cells only when they lie entirely inside the moved block,
                // the shifted band or outside both: every line must move by the same amount
                let lines: Vec<i32> = if e.rows() { (a..=c2).collect() } else { (b..=d).collect() };
                if lines.len() > 64 {
                    return Expect::Silent;
                }
                let shifts: std::collections::BTreeSet<i32> = lines.iter().filter_map(|l| e.map_line(*l).map(|m| m - l)).collect();
                if shifts.len() != 1 {
                    return Expect::Silent;
                }
            }
            if x.0 > LAST_ROW || y.0 > LAST_ROW || x.1 > LAST_COL || y.1 > LAST_COL {
                Expect::RefError
            } else {
                Expect::Same((ts, x.0, x.1, y.0, y.1))
            }
        }
        (None, None) if single => Expect::RefError,
        // a range that lost an edge (or all of its cells): IronCalc documents its own rule here
        _ => Expect::Silent,
    }
}

fn count_ref_errors(node: &Node) -> usize {
    let mut n = 0;
    walk(node, &mut |x| {
        if matches!(x, Node::ErrorKind(ironcalc_base::expressions::token::Error::REF)) {
            n += 1;
        }
    });
    n
}

fn parse_at(um: &UserModel, text: &str, sheet: u32, r: i32, c: i32) -> Option<Node> {
    let m = um.get_model();
    let sheets: Vec<String> = m.workbook.worksheets.iter().map(|w| w.name.clone()).collect();
    let locale = ironcalc_base::locale::get_locale("en").ok()?;
    let language = ironcalc_base::language::get_language("en").ok()?;
    let mut p = Parser::new(sheets.clone(), m.get_defined_name_list(), HashMap::new(), locale, language);
    let ctx = CellReferenceRC { sheet: sheets.get(sheet as usize)?.clone(), row: r, column: c };
    let node = p.parse(text.strip_prefix('=')?, &ctx);
    if contains_parse_error(&node) {
        None
    } else {
        Some(node)
    }
}

fn parse_key(k: &str) -> Option<(u32, i32, i32, &str)> {
    // s{sheet}!R{r}C{c}.{facet}
    let rest = k.strip_prefix('s')?;
    let (sheet, rest) = rest.split_once("!R")?;
    let (r, rest) = rest.split_once('C')?;
    let (c, facet) = rest.split_once('.')?;
    Some((sheet.parse().ok()?, r.parse().ok()?, c.parse().ok()?, facet))
}

fn line_key(k: &str) -> Option<(u32, bool, i32, &str)> {
    // s{sheet}.row{n}.{facet} / s{sheet}.col{n}.{facet}
    let rest = k.strip_prefix('s')?;
    let (sheet, rest) = rest.split_once('.')?;
    let (is_row, rest) = if let Some(r) = rest.strip_prefix("row") {
        (true, r)
    } else if let Some(r) = rest.strip_prefix("col") {
        (false, r)
    } else {
        return None;
    };
    let (n, facet) = rest.split_once('.')?;
    Some((sheet.parse().ok()?, is_row, n.parse().ok()?, facet))
}

#[derive(Clone, Debug, Serialize, Deserialize)]
pub struct Case {
    pub prop: String,
    pub nsheets: u32,
    pub setup: Vec<Op>,
    pub edit: Edit,
    /// a column record of sheet 0 spanning several columns (min, max), as an imported file has
    #[serde(default)]
    pub wide_col: Option<(i32, i32)>,
}

fn build(case: &Case) -> Option<UserModel<'static>> {
    let mut um = ops::new_user_model(case.nsheets);
    if let Some((min, max)) = case.wide_col {
        // the API only ever creates single-column records; files store runs of equal columns
        // as one record, so the starting workbook gets one the way an import would leave it
        let mut m = ironcalc_base::Model::from_bytes(&um.to_bytes(), "en").ok()?;
        m.workbook.worksheets.get_mut(0)?.cols.push(ironcalc_base::types::Col { min, max, width: 25.0, custom_width: true, hidden: false, style: None });
        um = UserModel::from_model(m);
    }
    for op in &case.setup {
        let _ = guarded(|| ops::apply(&mut um, op)).ok()?;
    }
    um.evaluate();
    Some(um)
}

/// which clause failed: (check, key = edit kind, cats, detail)
type Fail = (String, String, String, String);

fn fail(check: &str, edit: &Edit, cat: &str, detail: String) -> Fail {
    (check.to_string(), format!("{:?}", edit.kind), cat.to_string(), detail)
}

/// C12 / C13 / C15: compare the snapshot before (mapped through RS) with the snapshot after.
fn check_preserving(um0: &UserModel, um1: &UserModel, s0: &Snap, s1: &Snap, e: &Edit, prop: &str, st: &mut Stats) -> Option<Fail> {
    let deleting = matches!(e.kind, EditKind::DeleteRows | EditKind::DeleteCols);
    let moving = matches!(e.kind, EditKind::MoveRows | EditKind::MoveCols);
    let mut expected_keys = std::collections::BTreeSet::new();
    // Formulas whose value may legitimately change: they read a deleted cell, lose a
    // reference, hold a range the statement is silent about, or read (transitively) a
    // formula of that kind. Computed on the "before" coordinates.
    let mut formulas: Vec<((u32, i32, i32), Vec<Target>)> = vec![];
    let mut affected: std::collections::BTreeSet<(u32, i32, i32)> = Default::default();
    for (k, v0) in s0 {
        let Some((sheet, r, c, facet)) = parse_key(k) else { continue };
        if facet != "content" || !v0.starts_with('=') {
            continue;
        }
        let Some(n0) = parse_at(um0, v0, sheet, r, c) else {
            affected.insert((sheet, r, c));
            continue;
        };
        let t0 = targets_of(&n0, &CellReferenceRC { sheet: String::new(), row: r, column: c });
        let mut hit = false;
        for t in &t0 {
            match expected_target(e, t, moving) {
                Expect::Same(_) => {}
                Expect::RefError | Expect::Silent => hit = true,
            }
            let (ts, a, b, c2, d) = *t;
            if deleting && ts == e.sheet && if e.rows() { a < e.at + e.count && c2 >= e.at } else { b < e.at + e.count && d >= e.at } {
                hit = true;
            }
        }
        if hit {
            affected.insert((sheet, r, c));
        }
        formulas.push(((sheet, r, c), t0));
    }
    loop {
        let mut grew = false;
        for (cell, t0) in &formulas {
            if affected.contains(cell) {
                continue;
            }
            let reads_affected = t0.iter().any(|(ts, a, b, c2, d)| {
                affected.iter().any(|(s, r, c)| s == ts && *r >= *a && *r <= *c2 && *c >= *b && *c <= *d)
            });
            if reads_affected {
                affected.insert(*cell);
                grew = true;
            }
        }
        if !grew {
            break;
        }
    }
    for (k, v0) in s0 {
        let Some((sheet, r, c, facet)) = parse_key(k) else { continue };
        let Some((r1, c1)) = e.map_pos(sheet, r, c) else { continue };
        let k1 = format!("s{sheet}!R{r1}C{c1}.{facet}");
        expected_keys.insert(k1.clone());
        let content0 = s0.get(&format!("s{sheet}!R{r}C{c}.content")).cloned().unwrap_or_default();
        let is_formula = content0.starts_with('=');
        let v1 = s1.get(&k1);
        match facet {
            "content" if is_formula => {
                // the formula must read the image of what it read before
                let (Some(n0), Some(t1)) = (parse_at(um0, v0, sheet, r, c), v1) else {
                    if v1.is_none() {
                        return Some(fail("cell-lost", e, "cell.content", format!("{k} = {v0:?} has no counterpart at {k1}")));
                    }
                    continue;
                };
                let t0 = targets_of(&n0, &CellReferenceRC { sheet: String::new(), row: r, column: c });
                // expectation per reference
                let mut want: Vec<Option<Target>> = vec![];
                let mut judged = true;
                for t in &t0 {
                    match expected_target(e, t, moving) {
                        Expect::Same(x) => want.push(Some(x)),
                        Expect::RefError => want.push(None),
                        Expect::Silent => judged = false,
                    }
                }
                if !judged {
                    st.count("formulas_not_judged_partial_range");
                    continue;
                }
                let Some(n1) = parse_at(um1, t1, sheet, r1, c1) else {
                    return Some(fail("formula-broken", e, "cell.content", format!("{k}: {v0:?} became {t1:?} at {k1}, which does not parse")));
                };
                let t1s = targets_of(&n1, &CellReferenceRC { sheet: String::new(), row: r1, column: c1 });
                let want_refs: Vec<Target> = want.iter().flatten().cloned().collect();
                let want_errors = want.iter().filter(|w| w.is_none()).count();
                let errors_ok = want_errors == 0 || count_ref_errors(&n1) > count_ref_errors(&n0);
                if t1s != want_refs || !errors_ok {
                    return Some(fail(
                        "references",
                        e,
                        "cell.content",
                        format!("{k}: {v0:?} became {t1:?} at {k1}; it read {:?}, should now read {:?} (+{want_errors} #REF!), reads {:?}", t0, want_refs, t1s),
                    ));
                }
                st.count("formulas_reference_checked");
                // values: equal unless the formula legitimately lost something
                if want_errors == 0 {
                    let (kv, kv1) = (format!("s{sheet}!R{r}C{c}.value"), format!("s{sheet}!R{r1}C{c1}.value"));
                    let may_change = affected.contains(&(sheet, r, c));
                    if may_change {
                        st.count("formula_values_not_judged_reads_affected_cells");
                    }
                    if !may_change && s0.get(&kv) != s1.get(&kv1) {
                        return Some(fail(
                            "formula-value",
                            e,
                            "cell.value",
                            format!("{k}: {v0:?} had value {:?}; at {k1} {t1:?} has value {:?}", s0.get(&kv), s1.get(&kv1)),
                        ));
                    }
                }
            }
            "value" | "fmt" if is_formula => {} // judged with the content above
            _ => {
                if v1 != Some(v0) {
                    return Some(fail(
                        if v1.is_none() { "cell-lost" } else { "cell-changed" },
                        e,
                        &format!("cell.{facet}"),
                        format!("{k} = {v0:?} should be at {k1}, found {:?}", v1),
                    ));
                }
            }
        }
    }
    // nothing else may appear on cell facts
    for (k1, v1) in s1 {
        if parse_key(k1).is_some() && !expected_keys.contains(k1) {
            return Some(fail("cell-appeared", e, &snap::category(k1), format!("{k1} = {v1:?} is the image of no cell that existed before")));
        }
    }
    // C15: row/column sizes, styles and hidden flags move with their lines
    if prop == "C15" {
        for (k, v0) in s0 {
            let Some((sheet, is_row, n, facet)) = line_key(k) else { continue };
            if sheet != e.sheet || is_row != e.rows() {
                if s1.get(k) != Some(v0) {
                    return Some(fail("line-changed", e, &snap::category(k), format!("{k} = {v0:?} changed to {:?}", s1.get(k))));
                }
                continue;
            }
            let Some(n1) = e.map_line(n) else { continue };
            let k1 = format!("s{sheet}.{}{n1}.{facet}", if is_row { "row" } else { "col" });
            if s1.get(&k1) != Some(v0) {
                return Some(fail("line-moved", e, &snap::category(k), format!("{k} = {v0:?} should be at {k1}, found {:?}", s1.get(&k1))));
            }
        }
    }
    None
}

/// The user-level move skips hidden lines in its landing zone (a UI rule of
/// UserModel::move_rows_action / move_columns_action, not this property's subject): the RS
/// model is applied with the displacement the call really performs.
fn effective_delta(um: &UserModel, e: &Edit) -> i32 {
    if !matches!(e.kind, EditKind::MoveRows | EditKind::MoveCols) {
        return e.delta;
    }
    let Ok(ws) = um.get_model().workbook.worksheet(e.sheet) else { return e.delta };
    let hidden = |x: i32| if e.rows() { ws.is_row_hidden(x).unwrap_or(false) } else { ws.is_column_hidden(x).unwrap_or(false) };
    let mut d = e.delta;
    if e.delta > 0 {
        for x in e.at + e.count..=e.at + e.count + e.delta {
            if hidden(x) {
                d += 1;
            }
        }
    } else {
        for x in e.at + e.delta..e.at {
            if hidden(x) {
                d -= 1;
            }
        }
    }
    d
}

fn run_case(case: &Case, st: &mut Stats) -> Option<Fail> {
    let mut um = build(case)?;
    let um0 = build(case)?; // an untouched twin for parsing "before" formulas
    let applied = &case.edit;
    let effective = Edit { delta: effective_delta(&um0, applied), ..applied.clone() };
    if effective.delta != applied.delta {
        st.count("moves_with_hidden_lines_in_landing_zone");
    }
    let e = &effective;
    let s0 = snap::snapshot(&um, SnapOpts::FULL);
    let r = guarded(|| ops::apply(&mut um, &applied.op()));
    match r {
        Err(p) => return Some(fail("panic", e, "", format!("{:?} panicked: {p}", applied.op()))),
        Ok(Err(_)) => {
            st.count("edit_refused");
            return None;
        }
        Ok(Ok(())) => {}
    }
    st.evaluations += 1;
    let s1 = snap::snapshot(&um, SnapOpts::FULL);
    match case.prop.as_str() {
        "C14" => {
            // premise: the insertion pushed no reference off the grid
            let refs = |s: &Snap| s.iter().filter(|(k, v)| k.ends_with(".content") && v.contains("#REF!")).count();
            if refs(&s1) > refs(&s0) {
                st.count("premise_failed_reference_pushed_off_grid");
                return None;
            }
            let inverse = Edit {
                kind: if e.kind == EditKind::InsertRows { EditKind::DeleteRows } else { EditKind::DeleteCols },
                ..e.clone()
            };
            match guarded(|| ops::apply(&mut um, &inverse.op())) {
                Err(p) => Some(fail("panic", e, "", format!("{:?} panicked: {p}", inverse.op()))),
                Ok(Err(err)) => Some(fail("delete-refused", e, "", format!("{:?} after {:?} failed: {err}", inverse.op(), e.op()))),
                Ok(Ok(())) => {
                    let s2 = snap::snapshot(&um, SnapOpts::FULL);
                    if s2 != s0 {
                        let d = snap::diff(&s0, &s2);
                        Some(fail("identity", e, &snap::categories(&d).join(","), format!("{:?} then {:?} changed: {}", e.op(), inverse.op(), snap::describe(&d, 6))))
                    } else {
                        None
                    }
                }
            }
        }
        p => check_preserving(&um0, &um, &s0, &s1, e, p, st),
    }
}

fn gen_setup(rng: &mut StdRng, nsheets: u32, with_hazards: bool) -> Vec<Op> {
    let cfg = ops::GenCfg::new(&[]);
    let mut v = vec![];
    let n = rng.gen_range(8..22);
    for _ in 0..n {
        let sh = rng.gen_range(0..nsheets);
        let (r, c) = (rng.gen_range(1..=9), rng.gen_range(1..=7));
        let op = match rng.gen_range(0..24) {
            // hidden lines keep their stored size; a sheet-wide style followed by per-column
            // edits leaves column records that span several columns
            20 => Op::ColHidden(sh, c, c, true),
            21 => Op::RowHidden(sh, r, r, true),
            22 if v.is_empty() && rng.gen_bool(0.15) => Op::Style(sh, 1, 1, 16384, 1048576, "font.u".into(), "true".into()),
            23 => Op::ColWidth(sh, c, (c + rng.gen_range(0..3)).min(8), 77.0),
            0..=4 => Op::Input(sh, r, c, (*crate::util::pick(rng, &["7", "-2.5", "hello", "'123", "TRUE", "10%", "$5.50", "2024-03-05", "1,234", "1e3", "#N/A", " padded ", "123456789012345", "0.1"])).to_string()),
            5..=9 => Op::Input(sh, r, c, ops::acyclic_formula(rng, &cfg, r)),
            10 => {
                // cross-sheet and full-line references into sheet 0 (acyclic: typed on another sheet)
                if nsheets > 1 {
                    let f = match rng.gen_range(0..4) {
                        // (`+0`: a formula that is a bare reference to an empty cell has an
                        // evaluation-order dependent value in this engine — C05/C07's subject)
                        0 => format!("=Sheet1!{}{}+0", col_name(rng.gen_range(1..=7)), rng.gen_range(1..=9)),
                        1 => format!("=SUM(Sheet1!{}{}:{}{})", col_name(1), rng.gen_range(1..=4), col_name(rng.gen_range(2..=7)), rng.gen_range(5..=9)),
                        2 => format!("=SUM(Sheet1!{0}:{0})", col_name(rng.gen_range(1..=7))),
                        _ => format!("=COUNT(Sheet1!{}:{})", rng.gen_range(1..=4), rng.gen_range(5..=9)),
                    };
                    Op::Input(1, r, c, f)
                } else {
                    Op::Input(sh, r, c, "=$A$1+1".into())
                }
            }
            11..=12 => Op::Style(sh, r, c, rng.gen_range(1..=2), rng.gen_range(1..=2), "font.b".into(), "true".into()),
            13 => Op::Style(sh, r, c, 1, 1, "num_fmt".into(), "0.00".into()),
            14 if with_hazards => Op::SetLink(sh, r, c, "https://x.y".into(), None),
            15 if with_hazards => Op::Input(sh, r, c, "https://example.com".into()),
            16 => Op::RowHeight(sh, r, r, 40.5),
            17 => Op::ColWidth(sh, c, c, 120.5),
            18 => Op::Style(sh, r, 1, 16384, 1, "fill.color".into(), "#FF0000".into()),
            _ => Op::Style(sh, 1, c, 1, 1048576, "font.i".into(), "true".into()),
        };
        v.push(op);
    }
    v
}

fn gen_edit(rng: &mut StdRng, prop: &str, nsheets: u32) -> Edit {
    let sheet = if rng.gen_bool(0.8) { 0 } else { rng.gen_range(0..nsheets) };
    let rows = rng.gen_bool(0.5);
    let kind = match prop {
        "C12" | "C14" => {
            if rows {
                EditKind::InsertRows
            } else {
                EditKind::InsertCols
            }
        }
        "C13" => {
            if rows {
                EditKind::DeleteRows
            } else {
                EditKind::DeleteCols
            }
        }
        _ => {
            if rows {
                EditKind::MoveRows
            } else {
                EditKind::MoveCols
            }
        }
    };
    let max = if rows { 10 } else { 8 };
    let at = rng.gen_range(1..=max);
    let count = rng.gen_range(1..=3);
    let mut delta = rng.gen_range(-5..=5);
    if delta == 0 {
        delta = 2;
    }
    if at + delta < 1 {
        delta = 1 - at;
        if delta == 0 {
            delta = 1;
        }
    }
    Edit { kind, sheet, at, count, delta }
}

fn run_prop(ctx: &Ctx, prop: &'static str) -> Stats {
    let n = ctx.n(40_000, 1_500_000);
    let seed = ctx.seed;
    let stream = match prop {
        "C12" => 12,
        "C13" => 13,
        "C14" => 14,
        _ => 15,
    };
    crate::par::run_cases(n, ctx.threads, Duration::from_secs(if ctx.quick() { 100 } else { 1500 }), |i, st| {
        let mut rng = crate::util::rng_for(seed, stream, i);
        let nsheets = 1 + (i % 2) as u32;
        // clean-room half: no links / auto-links (triggers of open findings); full half: everything
        let clean = !ctx.avoid.is_empty() && i % 2 == 0;
        let case = Case { prop: prop.to_string(), nsheets, setup: gen_setup(&mut rng, nsheets, !clean), edit: gen_edit(&mut rng, prop, nsheets), wide_col: if rng.gen_bool(0.25) { let a = rng.gen_range(1..=6); Some((a, a + rng.gen_range(1..=3))) } else { None } };
        if i < 2 {
            st.sample(json!({"setup": case.setup.iter().take(8).collect::<Vec<_>>(), "edit": case.edit}));
        }
        if let Some((check, key, cats, detail)) = run_case(&case, st) {
            // shrink the setup: drop operations one by one while the same failure remains
            let mut small = case.clone();
            let mut i2 = 0;
            let mut budget = 60;
            while i2 < small.setup.len() && budget > 0 {
                let mut cand = small.clone();
                cand.setup.remove(i2);
                budget -= 1;
                let mut scratch = Stats::default();
                match run_case(&cand, &mut scratch) {
                    Some((c2, k2, cats2, _)) if c2 == check && k2 == key && cats2 == cats => small = cand,
                    _ => i2 += 1,
                }
            }
            let mut scratch = Stats::default();
            let detail = run_case(&small, &mut scratch).map(|f| f.3).unwrap_or(detail);
            let sig = format!("{}{check}|{key}|{cats}", if clean { "cleanroom/" } else { "" });
            ctx.report(st, &check, sig, detail, serde_json::to_value(&small).unwrap_or(Value::Null));
        } else {
            st.shape(format!("{:?}:at{}:n{}:d{}:s{}", case.edit.kind, case.edit.at, case.edit.count, case.edit.delta, case.edit.sheet));
        }
    })
}

fn replay(_ctx: &Ctx, case: &Value) -> Vec<Violation> {
    let Ok(c) = serde_json::from_value::<Case>(case.clone()) else { return vec![] };
    let mut st = Stats::default();
    match run_case(&c, &mut st) {
        Some((check, key, cats, detail)) => vec![Violation { check: check.clone(), sig: format!("{check}|{key}|{cats}"), detail, case: case.clone() }],
        None => vec![],
    }
}

const ASSUME: &[&str] = &[
    "workbooks hold values of every type (quote-prefixed strings, look-alike numbers/dates/booleans/errors, long-precision numbers), acyclic formulas (each reads only rows above it), cross-sheet and full-row/column references from a second sheet, styles, row/column styles and sizes; the full half of the cases adds hyperlinks and auto-linked URLs",
    "RS: a reference is expected to read the image of its endpoints; ranges that lose an edge under deletion, and ranges that straddle the moved block under a move, are not judged (the statement is silent)",
    "formula values are compared only for formulas that read no deleted cell and lose no reference",
    "dynamic arrays, CSE arrays and defined names are not generated by this engine (they are exercised by C31/C32 and the history engine)",
];

macro_rules! sprop {
    ($id:expr, $fname:ident, $rule:expr) => {{
        fn $fname(ctx: &Ctx) -> Stats {
            run_prop(ctx, $id)
        }
        PropInfo { id: $id, level: "exploration", rule: $rule, assumptions: ASSUME, run: $fname, replay }
    }};
}

pub fn props() -> Vec<PropInfo> {
    vec![
        sprop!("C12", run_c12, "random workbooks x insert_rows/insert_columns at every position 1..10 with counts 1..3 on either sheet; every pre-existing cell fact is looked up at its RS image; shape key = (edit kind, position, count, sheet)"),
        sprop!("C13", run_c13, "random workbooks x delete_rows/delete_columns at every position 1..10 with counts 1..3; cells outside the band at their RS image, references into the band must become #REF!, formulas reading no deleted cell keep their value; shape key = (edit kind, position, count, sheet)"),
        sprop!("C14", run_c14, "random workbooks x insert(k at p) followed by delete(k at p): full snapshot equality, premise (no reference pushed off the grid) checked on the intermediate state; shape key = (edit kind, position, count, sheet)"),
        sprop!("C15", run_c15, "random workbooks x move_rows_action/move_columns_action with block sizes 1..3 and offsets -5..5: cell facts and row/column descriptors at their permuted position; shape key = (edit kind, position, count, offset, sheet)"),
    ]
}
