//! C25 — xlsx import never crashes (and always finishes).
//! Oracle: child processes with panic hook; the parent classifies exit status, bisects to
//! the culprit mutant, and re-runs a case that timed out alone with a generous budget.

use super::{Ctx, PropInfo};
use crate::crash;
use crate::evid::{Stats, Violation};
use crate::util::guarded;
use ironcalc_base::Model;
use rand::rngs::StdRng;
use rand::Rng;
use serde_json::{json, Value};
use std::io::{Cursor, Read, Write};
use std::time::Duration;

fn repo_dir() -> String {
    std::env::var("VERIF_REPO").unwrap_or_else(|_| "/repo".to_string())
}

/// the seed corpus: xlsx files of the repository's own tests, smaller than 300 kB
pub fn corpus() -> Vec<String> {
    fn walk(dir: &std::path::Path, out: &mut Vec<String>) {
        let Ok(rd) = std::fs::read_dir(dir) else { return };
        let mut entries: Vec<_> = rd.filter_map(|e| e.ok()).collect();
        entries.sort_by_key(|e| e.path());
        for e in entries {
            let p = e.path();
            if p.is_dir() {
                walk(&p, out);
            } else if p.extension().map(|x| x == "xlsx").unwrap_or(false) {
                if let Ok(md) = e.metadata() {
                    if md.len() < 300_000 {
                        out.push(p.to_string_lossy().to_string());
                    }
                }
            }
        }
    }
    let mut all = vec![];
    walk(std::path::Path::new(&format!("{}/xlsx/tests", repo_dir())), &mut all);
    // every top-level / conditional-formatting / template file, and every 6th calc test
    let mut out = vec![];
    let mut k = 0;
    for f in all {
        if f.contains("/calc_tests/") || f.contains("/docs/") || f.contains("/calc_test_no_export/") {
            k += 1;
            if k % 6 != 0 {
                continue;
            }
        }
        out.push(f);
    }
    out
}

type Members = Vec<(String, Vec<u8>)>;

fn unzip(bytes: &[u8]) -> Option<Members> {
    let mut z = zip::ZipArchive::new(Cursor::new(bytes)).ok()?;
    let mut out = vec![];
    for i in 0..z.len() {
        let mut f = z.by_index(i).ok()?;
        let mut b = vec![];
        f.read_to_end(&mut b).ok()?;
        out.push((f.name().to_string(), b));
    }
    Some(out)
}

fn rezip(members: &Members, method: zip::CompressionMethod) -> Vec<u8> {
    let mut w = zip::ZipWriter::new(Cursor::new(Vec::new()));
    let opts = zip::write::FileOptions::default().compression_method(method);
    for (name, data) in members {
        if w.start_file(name.clone(), opts).is_ok() {
            let _ = w.write_all(data);
        }
    }
    w.finish().map(|c| c.into_inner()).unwrap_or_default()
}

const BAD_VALUES: &[&str] = &["", "-1", "0", "99999999999", "abc", "A0", "XFE1", "A1048577", "1048577", "16385", "4294967296", "1e999", "NaN", "INF", "A1:", ":B2", "\u{0}", "1 2", "-0", "true", "rId999"];

/// find the tags of an XML text: (start, end) byte offsets of every `<...>`
fn tags(xml: &str) -> Vec<(usize, usize)> {
    let b = xml.as_bytes();
    let mut out = vec![];
    let mut i = 0;
    while i < b.len() {
        if b[i] == b'<' {
            if let Some(j) = xml[i..].find('>') {
                out.push((i, i + j + 1));
                i += j + 1;
                continue;
            }
        }
        i += 1;
    }
    out
}

fn tag_name(tag: &str) -> String {
    tag.trim_start_matches('<').trim_start_matches('/').split(|c: char| c.is_whitespace() || c == '>' || c == '/').next().unwrap_or("").to_string()
}

const TEXT_VALUES: &[&str] = &[
    "_x", "_x0", "_x00", "_x000", "_x000D", "a_x000D", "plot_xaxis", "_x000D_", "_xZZZZ_", "_x005F_x000D_", "ab_x1", "ab_x12", "ab_x123", "ab_x1234", "ab_x12345",
    "1e999", "-1e999", "NaN", "inf", "-", "", "1.5.2", "=1+", "SUM(", "A1:", "#REF!", "TRUE", "2", "-1", "99999999999", "&amp;", "&lt;x&gt;", " ",
];

/// XML element / attribute level mutation. Returns (mutated text, description)
fn mutate_xml(rng: &mut StdRng, xml: &str) -> (String, String) {
    let ts = tags(xml);
    let opens: Vec<(usize, usize)> = ts.iter().cloned().filter(|(a, b)| !xml[*a..*b].starts_with("</") && !xml[*a..*b].starts_with("<?")).collect();
    if opens.is_empty() {
        return (xml.to_string(), "none".into());
    }
    let (a, b) = opens[rng.gen_range(0..opens.len())];
    let tag = &xml[a..b];
    let name = tag_name(tag);
    // element extent
    let self_closing = tag.ends_with("/>");
    let end = if self_closing {
        b
    } else {
        // first matching close after b with nesting of the same name
        let mut depth = 1;
        let mut pos = b;
        let mut found = b;
        for (x, y) in ts.iter().filter(|(x, _)| *x >= b) {
            let t = &xml[*x..*y];
            if tag_name(t) == name {
                if t.starts_with("</") {
                    depth -= 1;
                } else if !t.ends_with("/>") {
                    depth += 1;
                }
                if depth == 0 {
                    found = *y;
                    break;
                }
            }
            pos = *y;
        }
        let _ = pos;
        found
    };
    match rng.gen_range(0..8) {
        0 => (format!("{}{}", &xml[..a], &xml[end..]), format!("delete-element:{name}")),
        1 => (format!("{}{}{}", &xml[..end], &xml[a..end], &xml[end..]), format!("duplicate-element:{name}")),
        2 if !self_closing => (format!("{}{}", &xml[..b], &xml[end.saturating_sub(name.len() + 3).max(b)..]), format!("empty-element:{name}")),
        4 if !self_closing && end >= b + name.len() + 3 => {
            // replace the element's content by a hostile text (escape look-alikes cut off at
            // every length, numbers that are not numbers, formula fragments)
            let v = *crate::util::pick(rng, TEXT_VALUES);
            let close = end - (name.len() + 3);
            (format!("{}{}{}", &xml[..b], v, &xml[close.max(b)..]), format!("content:{name}={}", crate::util::erase_digits(v)))
        }
        3 => {
            // move the element to the end of its parent (reorder)
            let el = xml[a..end].to_string();
            let rest = format!("{}{}", &xml[..a], &xml[end..]);
            let at = rest[a.min(rest.len())..].find("</").map(|p| p + a.min(rest.len())).unwrap_or(rest.len());
            (format!("{}{}{}", &rest[..at], el, &rest[at..]), format!("reorder-element:{name}"))
        }
        _ => {
            // attribute level
            let mut attrs: Vec<(usize, usize, usize)> = vec![]; // (name start, value start, value end) relative to tag
            let tb = tag.as_bytes();
            let mut i = 0;
            while i < tb.len() {
                if tb[i] == b'=' && i + 1 < tb.len() && (tb[i + 1] == b'"' || tb[i + 1] == b'\'') {
                    let q = tb[i + 1];
                    if let Some(close) = tag[i + 2..].bytes().position(|c| c == q) {
                        let ns = tag[..i].rfind(|c: char| c.is_whitespace()).map(|p| p + 1).unwrap_or(0);
                        attrs.push((ns, i + 2, i + 2 + close));
                        i = i + 2 + close;
                    }
                }
                i += 1;
            }
            if attrs.is_empty() {
                return (format!("{}{}", &xml[..a], &xml[end..]), format!("delete-element:{name}"));
            }
            let (ns, vs, ve) = attrs[rng.gen_range(0..attrs.len())];
            let aname = tag[ns..vs.saturating_sub(2)].to_string();
            if rng.gen_bool(0.2) {
                // drop the attribute
                let new_tag = format!("{}{}", &tag[..ns], &tag[(ve + 1).min(tag.len())..]);
                (format!("{}{}{}", &xml[..a], new_tag, &xml[b..]), format!("drop-attribute:{name}@{aname}"))
            } else {
                let v = *crate::util::pick(rng, BAD_VALUES);
                let new_tag = format!("{}{}{}", &tag[..vs], v, &tag[ve..]);
                (format!("{}{}{}", &xml[..a], new_tag, &xml[b..]), format!("attribute:{name}@{aname}={}", crate::util::erase_digits(v)))
            }
        }
    }
}

pub struct Mutant {
    pub bytes: Vec<u8>,
    pub file: String,
    pub what: String,
}

pub fn mutant_for(seed: u64, idx: u64) -> Option<Mutant> {
    let files = corpus();
    if files.is_empty() {
        return None;
    }
    let mut rng = crate::util::rng_for(seed, 25, idx);
    let file = files[(idx % files.len() as u64) as usize].clone();
    let original = std::fs::read(&file).ok()?;
    let short = file.rsplit('/').next().unwrap_or("?").to_string();
    let level = (idx / files.len() as u64) % 10;
    if level == 0 {
        // byte level on the raw package
        let mut b = original.clone();
        let what = match rng.gen_range(0..5) {
            0 => {
                let n = rng.gen_range(0..b.len().max(1));
                b.truncate(n);
                "byte:truncate"
            }
            1 => {
                for _ in 0..rng.gen_range(1..8) {
                    let i = rng.gen_range(0..b.len());
                    b[i] ^= 1 << rng.gen_range(0..8);
                }
                "byte:flip"
            }
            2 => {
                let i = rng.gen_range(0..b.len());
                let extra: Vec<u8> = (0..rng.gen_range(1..64)).map(|_| rng.gen()).collect();
                b.splice(i..i, extra);
                "byte:insert"
            }
            3 => {
                let i = rng.gen_range(0..b.len());
                let j = (i + rng.gen_range(1..200)).min(b.len());
                b.drain(i..j);
                "byte:remove-chunk"
            }
            _ => {
                b = (0..rng.gen_range(0..300)).map(|_| rng.gen()).collect();
                "byte:random-bytes"
            }
        };
        return Some(Mutant { bytes: b, file: short, what: what.to_string() });
    }
    if level == 9 {
        // a package written by the engine's own exporter from a model full of hostile strings
        // (typed text and formula results), then imported like any other file
        let mut m = Model::new_empty("m", "en", "UTC", "en").ok()?;
        for r in 1..=8 {
            let t = *crate::util::pick(&mut rng, TEXT_VALUES);
            let _ = m.set_user_input(0, r, 1, format!("'{t}"));
            let t2 = *crate::util::pick(&mut rng, TEXT_VALUES);
            let _ = m.set_user_input(0, r, 2, format!("=\"{}\"&\"\"", t2.replace('"', "\"\"")));
        }
        m.evaluate();
        let bytes = guarded(|| ironcalc::export::save_xlsx_to_writer(&m, std::io::Cursor::new(Vec::new())).map(|c| c.into_inner())).ok()?.ok()?;
        return Some(Mutant { bytes, file: "exported".into(), what: "export:hostile-strings".into() });
    }
    let mut members = unzip(&original)?;
    if level == 1 || level == 2 {
        // zip level
        let what = match rng.gen_range(0..6) {
            0 => {
                let i = rng.gen_range(0..members.len());
                let n = members.remove(i).0;
                format!("zip:drop-member:{}", n.rsplit('/').next().unwrap_or(""))
            }
            1 => {
                let i = rng.gen_range(0..members.len());
                let m = members[i].clone();
                members.push(m);
                "zip:duplicate-member".to_string()
            }
            2 => {
                let i = rng.gen_range(0..members.len());
                members[i].0 = format!("x{}", members[i].0);
                "zip:rename-member".to_string()
            }
            3 => {
                let i = rng.gen_range(0..members.len());
                members[i].1.clear();
                format!("zip:empty-member:{}", members[i].0.rsplit('/').next().unwrap_or(""))
            }
            4 => {
                let i = rng.gen_range(0..members.len());
                let n = members[i].1.len();
                members[i].1.truncate(rng.gen_range(0..n.max(1)));
                format!("zip:truncate-member:{}", members[i].0.rsplit('/').next().unwrap_or(""))
            }
            _ => "zip:recompress".to_string(),
        };
        let method = *crate::util::pick(&mut rng, &[zip::CompressionMethod::Stored, zip::CompressionMethod::Deflated, zip::CompressionMethod::Bzip2, zip::CompressionMethod::Zstd]);
        return Some(Mutant { bytes: rezip(&members, method), file: short, what: format!("{what}/{:?}", method) });
    }
    // XML level: pick an xml member (sheets and workbook parts weigh more)
    let xmls: Vec<usize> = members.iter().enumerate().filter(|(_, (n, _))| n.ends_with(".xml") || n.ends_with(".rels")).map(|(i, _)| i).collect();
    if xmls.is_empty() {
        return Some(Mutant { bytes: original, file: short, what: "none".into() });
    }
    let weighted: Vec<usize> = xmls
        .iter()
        .flat_map(|i| {
            let n = &members[*i].0;
            let w = if n.contains("worksheets/sheet") || n.ends_with("workbook.xml") || n.ends_with("styles.xml") || n.ends_with("workbook.xml.rels") || n.ends_with("sharedStrings.xml") { 5 } else { 1 };
            std::iter::repeat(*i).take(w)
        })
        .collect();
    let i = weighted[rng.gen_range(0..weighted.len())];
    let text = String::from_utf8_lossy(&members[i].1).to_string();
    let mut t = text;
    let mut whats = vec![];
    for _ in 0..(if rng.gen_bool(0.8) { 1 } else { 3 }) {
        let (t2, w) = mutate_xml(&mut rng, &t);
        t = t2;
        whats.push(w);
    }
    let part = members[i].0.rsplit('/').next().unwrap_or("").to_string();
    members[i].1 = t.into_bytes();
    Some(Mutant { bytes: rezip(&members, zip::CompressionMethod::Deflated), file: short, what: format!("xml:{}:{}", crate::util::erase_digits(&part), whats.join("+")) })
}

/// import + model + evaluate; Err((stage, panic))
pub fn import(bytes: &[u8]) -> Result<&'static str, (String, String)> {
    let r = guarded(|| ironcalc::import::load_from_xlsx_bytes(bytes, "m", "en", "UTC")).map_err(|p| ("load_from_xlsx_bytes".to_string(), p))?;
    let Ok(wb) = r else { return Ok("import-error") };
    let r = guarded(|| Model::from_workbook(wb, "en")).map_err(|p| ("from_workbook".to_string(), p))?;
    let Ok(mut model) = r else { return Ok("model-error") };
    guarded(|| model.evaluate()).map_err(|p| ("evaluate".to_string(), p))?;
    Ok("imported")
}

pub fn child_main(_tier: &str, seed: u64, from: u64, to: u64) {
    let r = crash::on_main_sized_stack(move || {
        let mut outcomes = std::collections::BTreeMap::<String, u64>::new();
        let mut kinds = std::collections::BTreeSet::<String>::new();
        for i in from..to {
            let Some(m) = mutant_for(seed, i) else { continue };
            match import(&m.bytes) {
                Ok(o) => {
                    *outcomes.entry(o.to_string()).or_insert(0) += 1;
                    let k: String = m.what.split(['=', '+']).next().unwrap_or("").to_string();
                    if kinds.len() < 400 {
                        kinds.insert(format!("{o}:{k}"));
                    }
                }
                Err((stage, p)) => println!("{}", json!({"i": i, "stage": stage, "panic": p, "what": m.what, "file": m.file})),
            }
        }
        println!("{}", json!({"done": to - from, "outcomes": outcomes, "kinds": kinds}));
    });
    if r.is_none() {
        std::process::exit(101);
    }
}

fn run(ctx: &Ctx) -> Stats {
    let total = ctx.n(8000, 400_000);
    let batch = 250u64;
    let nb = (total + batch - 1) / batch;
    let tier = ctx.tier.clone();
    let seed = ctx.seed;
    let mut st = crate::par::run_cases(nb, ctx.threads, Duration::from_secs(if ctx.quick() { 150 } else { 1500 }), |b, st| {
        let (from, to) = (b * batch, ((b + 1) * batch).min(total));
        // generous budgets: a normal import takes well under 50 ms
        let (lines, culprits) = crash::run_range("C25", &tier, seed, from, to, Duration::from_secs(120), Duration::from_secs(30));
        for l in &lines {
            if let Some(n) = l.get("done").and_then(|d| d.as_u64()) {
                st.evaluations += n;
                if let Some(o) = l.get("outcomes").and_then(|c| c.as_object()) {
                    for (k, v) in o {
                        st.add(&format!("outcome.{k}"), v.as_u64().unwrap_or(0));
                    }
                }
                if let Some(k) = l.get("kinds").and_then(|c| c.as_array()) {
                    for x in k {
                        if let Some(s) = x.as_str() {
                            st.shape(s.to_string());
                        }
                    }
                }
            } else if let Some(i) = l.get("i").and_then(|i| i.as_u64()) {
                let stage = l.get("stage").and_then(|a| a.as_str()).unwrap_or("?");
                let p = l.get("panic").and_then(|a| a.as_str()).unwrap_or("?");
                let what = l.get("what").and_then(|a| a.as_str()).unwrap_or("?");
                let file = l.get("file").and_then(|a| a.as_str()).unwrap_or("?");
                ctx.report(st, "panic", format!("panic|{}", crate::util::panic_site(p)), format!("{stage} panicked on mutant [{what}] of {file}: {p}"), json!({"seed": seed, "index": i}));
            }
        }
        for cu in culprits {
            let what = mutant_for(seed, cu.index).map(|m| format!("[{}] of {}", m.what, m.file)).unwrap_or_default();
            if cu.timed_out {
                // bounded progress: re-run alone with three times the budget before judging
                match crash::run_child("C25", &tier, seed, cu.index, cu.index + 1, Duration::from_secs(90)) {
                    crash::ChildEnd::TimedOut(_) => ctx.report(st, "hang", "hang|import|".into(), format!("import of mutant {what} did not finish within 90 s (a normal import takes < 50 ms)"), json!({"seed": seed, "index": cu.index})),
                    _ => {
                        st.inconclusive += 1;
                        st.notes.push(format!("mutant {what} timed out once under load but finished when re-run alone"));
                    }
                }
            } else {
                ctx.report(st, "abort", "abort|process|".into(), format!("the process died ({}) importing mutant {what}", cu.how), json!({"seed": seed, "index": cu.index}));
            }
        }
        if b == 0 {
            for i in [3u64, 77, 151] {
                if let Some(m) = mutant_for(seed, i) {
                    st.sample(json!({"file": m.file, "mutation": m.what, "bytes": m.bytes.len()}));
                }
            }
        }
    });
    st.extra.insert("seed_corpus_files".into(), json!(corpus().len()));
    st
}

/// A mutation spelled out by name (committed findings use this form, so that they do not
/// depend on the mutant generator's random stream): drop the first element `drop_element`
/// from the member ending in `part` of the corpus file `base` (relative to the repository).
fn named_mutation(case: &Value) -> Option<Vec<u8>> {
    let base = case.get("base")?.as_str()?;
    let part = case.get("part")?.as_str()?;
    let element = case.get("drop_element")?.as_str()?;
    let original = std::fs::read(format!("{}/{}", repo_dir(), base)).ok()?;
    let mut members = unzip(&original)?;
    let i = members.iter().position(|(n, _)| n.ends_with(part))?;
    let xml = String::from_utf8_lossy(&members[i].1).to_string();
    let open = xml.find(&format!("<{element}"))?;
    let close_tag = format!("</{element}>");
    let end = match xml[open..].find(&close_tag) {
        Some(p) => open + p + close_tag.len(),
        None => open + xml[open..].find("/>")? + 2,
    };
    members[i].1 = format!("{}{}", &xml[..open], &xml[end..]).into_bytes();
    Some(rezip(&members, zip::CompressionMethod::Deflated))
}

fn replay(ctx: &Ctx, case: &Value) -> Vec<Violation> {
    if case.get("base").is_some() {
        let Some(bytes) = named_mutation(case) else { return vec![] };
        return match import(&bytes) {
            Err((stage, p)) => vec![Violation { check: "panic".into(), sig: format!("panic|{}", crate::util::panic_site(&p)), detail: format!("{stage} panicked: {p}"), case: case.clone() }],
            Ok(_) => vec![],
        };
    }
    let seed = case.get("seed").and_then(|t| t.as_u64()).unwrap_or(0);
    let i = case.get("index").and_then(|t| t.as_u64()).unwrap_or(0);
    let (lines, culprits) = crash::run_range("C25", &ctx.tier, seed, i, i + 1, Duration::from_secs(90), Duration::from_secs(90));
    let mut out = vec![];
    for l in &lines {
        if l.get("i").is_some() {
            let stage = l.get("stage").and_then(|a| a.as_str()).unwrap_or("?");
            let p = l.get("panic").and_then(|a| a.as_str()).unwrap_or("?");
            out.push(Violation { check: "panic".into(), sig: format!("panic|{}", crate::util::panic_site(p)), detail: format!("{stage} panicked: {p}"), case: case.clone() });
        }
    }
    for cu in culprits {
        out.push(Violation {
            check: if cu.timed_out { "hang".into() } else { "abort".into() },
            sig: if cu.timed_out { "hang|import|".into() } else { "abort|process|".into() },
            detail: cu.how,
            case: case.clone(),
        });
    }
    out
}

pub fn props() -> Vec<PropInfo> {
    vec![PropInfo {
        id: "C25",
        level: "fault_enumeration",
        rule: "seed corpus = xlsx files of the repository's tests (< 300 kB); each indexed case mutates one file at byte level (truncate, bit flips, inserts, chunk removal, random bytes), zip level (drop/duplicate/rename/empty/truncate members; stored/deflate/bzip2/zstd recompression) or XML level (delete/duplicate/empty/reorder an element, drop an attribute or set it to one of 21 hostile values, in sheet/workbook/styles/rels parts preferentially) and runs load_from_xlsx_bytes, Model::from_workbook and evaluate in a child process; shape key = (outcome, mutation kind with part, element and attribute names)",
        assumptions: &[
            "a mutant that times out in a batch is re-run alone for 90 s; only a reproducible timeout is a violation, otherwise it is inconclusive",
            "children run on an 8 MiB stack",
        ],
        run,
        replay,
    }]
}
