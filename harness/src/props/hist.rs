//! History engine: drives op histories through the real `UserModel` and decides
//! C01 (undo), C02 (redo), C03 (replica convergence), C04 (failed op changes nothing),
//! C26 (binary round trip), C27 (structure well-formed), C28 (selection valid).
//!
//! The only model of IronCalc here is HM: a vector of observed snapshots plus a cursor.

use super::{Ctx, PropInfo};
use crate::evid::{Stats, Violation};
use crate::ops::{self, GenCfg, Op};
use crate::snap::{self, Snap, SnapOpts};
use crate::util::{self, guarded};
use crate::walk;
use ironcalc_base::UserModel;
use rand::rngs::StdRng;
use rand::Rng;
use serde_json::{json, Value};
use std::time::Duration;

#[derive(Clone, Copy, PartialEq, Debug)]
pub enum Which {
    Undo,
    Redo,
    Replica,
    Failed,
    Reload,
    Structure,
    Selection,
}

impl Which {
    fn id(self) -> &'static str {
        match self {
            Which::Undo => "C01",
            Which::Redo => "C02",
            Which::Replica => "C03",
            Which::Failed => "C04",
            Which::Reload => "C26",
            Which::Structure => "C27",
            Which::Selection => "C28",
        }
    }
    fn from_id(s: &str) -> Option<Which> {
        Some(match s {
            "C01" => Which::Undo,
            "C02" => Which::Redo,
            "C03" => Which::Replica,
            "C04" => Which::Failed,
            "C26" => Which::Reload,
            "C27" => Which::Structure,
            "C28" => Which::Selection,
            _ => return None,
        })
    }
}

pub struct Viol {
    pub check: String,
    pub sig: String,
    pub detail: String,
}

pub struct Runner {
    pub um: UserModel<'static>,
    replica: Option<UserModel<'static>>,
    which: Which,
    /// HM: snaps[i] = observed state after i recorded operations (None = unknown)
    snaps: Vec<Option<Snap>>,
    /// kind of the operation that produced snaps[i]
    made_by: Vec<String>,
    cursor: usize,
    /// every undo since the last forward operation restored its expected snapshot
    walk_clean: bool,
    pub local: Stats,
    opts: SnapOpts,
    dead: bool,
    /// indices whose snapshot was replaced by an observed (possibly corrupted) state
    redo_unreliable: std::collections::BTreeSet<usize>,
    /// the current state descends from a state some undo/redo failed to restore
    corrupt: bool,
    /// kind of the last real operation (key of replica signatures)
    last_kind: String,
}

fn snap_of(um: &UserModel, o: SnapOpts) -> Result<Snap, String> {
    guarded(|| snap::snapshot(um, o))
}

impl Runner {
    pub fn new(which: Which, nsheets: u32) -> Runner {
        let um = ops::new_user_model(nsheets);
        let replica = if which == Which::Replica {
            Some(UserModel::from_bytes(&um.to_bytes(), "en").expect("replica"))
        } else {
            None
        };
        let opts = SnapOpts::FULL;
        let s0 = snap::snapshot(&um, opts);
        Runner {
            um,
            replica,
            which,
            snaps: vec![Some(s0)],
            made_by: vec!["<init>".into()],
            cursor: 0,
            walk_clean: true,
            local: Stats::default(),
            opts,
            dead: false,
            redo_unreliable: Default::default(),
            corrupt: false,
            last_kind: "-".into(),
        }
    }

    fn barrier(&mut self, post: Snap) {
        // an unrecorded change of observable state: older snapshots no longer describe
        // what undo should show (e.g. display language changed) -> forget them
        for s in self.snaps.iter_mut() {
            *s = None;
        }
        self.snaps[self.cursor] = Some(post);
        self.walk_clean = false;
        for i in 0..self.snaps.len() {
            self.redo_unreliable.insert(i);
        }
    }

    /// Is the current state a fixpoint of save/reload/evaluate? A state that is not was
    /// corrupted by an earlier defect (C05/C26/C27's business); the oracles of C01-C04
    /// stop there instead of blaming whatever operation touches the corrupted state next.
    fn reload_stable(&self) -> bool {
        let lang = self.um.get_language();
        let opts = self.opts;
        let r = guarded(|| {
            let bytes = self.um.to_bytes();
            let mut other = UserModel::from_bytes(&bytes, "en").ok()?;
            other.set_language(&lang).ok()?;
            other.evaluate();
            Some(snap::snapshot(&other, opts) == snap::snapshot(&self.um, opts))
        });
        matches!(r, Ok(Some(true)))
    }

    /// Execute one operation and run the oracle of `self.which`. Returns the first violation.
    pub fn step(&mut self, op: &Op) -> Option<Viol> {
        let t0 = std::time::Instant::now();
        let v = self.step_inner(op);
        let dt = t0.elapsed().as_secs_f64();
        if dt > 2.0 {
            self.local.count(&format!("slow_step_over_2s.{}", ops::kind(op)));
            if std::env::var("VERIF_TRACE_SLOW").is_ok() {
                eprintln!("slow step {:.1}s: {:?}", dt, op);
            }
        }
        if v.is_none()
            && !self.dead
            && matches!(
                self.which,
                Which::Undo | Which::Redo | Which::Replica | Which::Failed
            )
            && !matches!(op, Op::Flush | Op::Reload)
            && !self.reload_stable()
        {
            self.local
                .count(&format!("poisoned_state_after.{}", ops::kind(op)));
            self.dead = true;
        }
        v
    }

    fn step_inner(&mut self, op: &Op) -> Option<Viol> {
        if self.dead {
            return None;
        }
        let which = self.which;
        let kind = ops::kind(op);
        self.local.evaluations += 1;
        match op {
            Op::Flush => return self.flush(),
            Op::Reload => return self.reload(),
            _ => {}
        }
        self.last_kind = kind.clone();
        let pre = match snap_of(&self.um, self.opts) {
            Ok(s) => s,
            Err(p) => {
                self.dead = true;
                self.local.count("snapshot_panic");
                return self.panic_viol("snapshot", &kind, &p);
            }
        };
        let (u0, r0, q0) = self.um.verif_depths();
        let res = guarded(|| ops::apply(&mut self.um, op));
        let res = match res {
            Ok(r) => r,
            Err(p) => {
                self.dead = true;
                self.local.count(&format!("panic.{kind}"));
                self.local.set_add("panic_sites", util::panic_site(&p));
                // a panic inside undo/redo is a failed restore; elsewhere it is recorded only
                return match (which, op) {
                    (Which::Undo, Op::Undo) | (Which::Redo, Op::Redo) => {
                        self.panic_viol(if *op == Op::Undo { "undo" } else { "redo" }, &kind, &p)
                    }
                    _ => None,
                };
            }
        };
        let mut post = match snap_of(&self.um, self.opts) {
            Ok(s) => s,
            Err(p) => {
                self.dead = true;
                return self.panic_viol("snapshot", &kind, &p);
            }
        };
        let (u1, r1, q1) = self.um.verif_depths();
        if res.is_ok() && !matches!(op, Op::Undo | Op::Redo | Op::PauseEval | Op::ResumeEval) {
            // Histories continue from an evaluation fixpoint: an operation that leaves
            // stale values behind is C05/C07's business and must not poison this oracle.
            if guarded(|| self.um.evaluate()).is_err() {
                self.dead = true;
                self.local.count("evaluate_panic");
                return None;
            }
            if let Ok(p2) = snap_of(&self.um, self.opts) {
                if p2 != post {
                    self.local.count(&format!("stale_values_after.{kind}"));
                    post = p2;
                }
            }
        }
        let changed = pre != post;
        let outcome = match (&res, u1 > u0, changed) {
            (Err(_), _, _) => "err",
            (Ok(_), true, _) => "recorded",
            (Ok(_), false, true) => "unrecorded-change",
            (Ok(_), false, false) => "noop",
        };
        let d = snap::diff(&pre, &post);
        let cats = snap::categories(&d).join(",");
        self.local.shape(format!("{kind}/{outcome}/{cats}"));
        self.local.count(&format!("op.{kind}.{outcome}"));
        if q1 > q0 {
            self.local.count("queue_growth");
        }

        let mut viol: Option<Viol> = None;

        // structure / selection walkers run after every call, whatever its outcome
        if which == Which::Structure {
            let defects = walk::walk_structure(&self.um.get_model().workbook);
            if let Some((class, detail)) = defects.first() {
                viol = Some(Viol {
                    check: "structure".into(),
                    sig: format!("structure|{kind}|{class}"),
                    detail: format!("after {:?} ({outcome}): {class}: {detail}", op),
                });
            }
        }
        if which == Which::Selection {
            let defects = walk::walk_selection(&self.um);
            if let Some((class, detail)) = defects.first() {
                viol = Some(Viol {
                    check: "selection".into(),
                    sig: format!("selection|{kind}|{class}"),
                    detail: format!("after {:?} ({outcome}): {class}: {detail}", op),
                });
            }
        }

        match op {
            Op::Undo => {
                if r1 > r0 || (res.is_ok() && u1 < u0) {
                    // an undo step was taken
                    if self.cursor == 0 {
                        // HM thinks there is nothing to undo: set-up inconsistency, forget
                        self.barrier(post);
                        return viol;
                    }
                    let undone = self.made_by[self.cursor].clone();
                    self.cursor -= 1;
                    match &self.snaps[self.cursor] {
                        Some(exp) => {
                            if *exp != post {
                                self.walk_clean = false;
                                let dd = snap::diff(exp, &post);
                                if which == Which::Undo && viol.is_none() {
                                    viol = Some(Viol {
                                        check: "undo".into(),
                                        sig: format!(
                                            "undo|{undone}|{}",
                                            snap::categories(&dd).join(",")
                                        ),
                                        detail: format!(
                                            "undo of {undone} did not restore the previous state (expected -> observed): {}",
                                            snap::describe(&dd, 6)
                                        ),
                                    });
                                }
                                // resynchronise on the observed state; it is what later undos
                                // must come back to, but it is not what a redo arriving from
                                // below has to reproduce
                                self.snaps[self.cursor] = Some(post);
                                self.redo_unreliable.insert(self.cursor);
                                self.corrupt = true;
                            } else {
                                self.local.count("undo_checked_ok");
                                if !self.redo_unreliable.contains(&self.cursor) {
                                    // back on a verified original state
                                    self.corrupt = false;
                                }
                            }
                        }
                        None => {
                            self.snaps[self.cursor] = Some(post);
                            self.redo_unreliable.insert(self.cursor);
                            self.corrupt = true;
                        }
                    }
                } else if let Err(e) = &res {
                    self.walk_clean = false;
                    if which == Which::Undo && self.cursor > 0 && viol.is_none() {
                        let undone = self.made_by[self.cursor].clone();
                        viol = Some(Viol {
                            check: "undo".into(),
                            sig: format!("undo-err|{undone}|{}", util::erase_digits(e)),
                            detail: format!("undo of {undone} returned Err({e})"),
                        });
                    }
                    // after a failed undo the engine's stacks are unknowable: stop this history
                    self.dead = true;
                }
            }
            Op::Redo => {
                if u1 > u0 {
                    if self.cursor + 1 >= self.snaps.len() {
                        self.barrier(post);
                        return viol;
                    }
                    self.cursor += 1;
                    let redone = self.made_by[self.cursor].clone();
                    match &self.snaps[self.cursor] {
                        Some(exp) => {
                            if *exp != post {
                                let dd = snap::diff(exp, &post);
                                let checkable = self.walk_clean
                                    && !self.corrupt
                                    && !self.redo_unreliable.contains(&self.cursor);
                                if !checkable {
                                    self.redo_unreliable.insert(self.cursor);
                                    self.corrupt = true;
                                }
                                if which == Which::Redo && checkable && viol.is_none() {
                                    viol = Some(Viol {
                                        check: "redo".into(),
                                        sig: format!(
                                            "redo|{redone}|{}",
                                            snap::categories(&dd).join(",")
                                        ),
                                        detail: format!(
                                            "redo of {redone} did not reproduce the state that followed it (expected -> observed): {}",
                                            snap::describe(&dd, 6)
                                        ),
                                    });
                                }
                                self.snaps[self.cursor] = Some(post);
                            } else if self.walk_clean
                                && !self.corrupt
                                && !self.redo_unreliable.contains(&self.cursor)
                            {
                                self.local.count("redo_checked_ok");
                            }
                        }
                        None => {
                            self.snaps[self.cursor] = Some(post);
                            self.redo_unreliable.insert(self.cursor);
                            self.corrupt = true;
                        }
                    }
                } else if let Err(e) = &res {
                    if which == Which::Redo
                        && self.walk_clean
                        && self.cursor + 1 < self.snaps.len()
                        && viol.is_none()
                    {
                        let redone = self.made_by[self.cursor + 1].clone();
                        viol = Some(Viol {
                            check: "redo".into(),
                            sig: format!("redo-err|{redone}|{}", util::erase_digits(e)),
                            detail: format!("redo of {redone} returned Err({e})"),
                        });
                    }
                    self.dead = true;
                }
            }
            _ => {
                // forward operation
                match &res {
                    Ok(()) => {
                        if u1 > u0 {
                            let k = u1 - u0;
                            self.snaps.truncate(self.cursor + 1);
                            self.made_by.truncate(self.cursor + 1);
                            let cur = self.cursor;
                            self.redo_unreliable.retain(|i| *i <= cur);
                            for _ in 1..k {
                                self.snaps.push(None);
                                self.made_by.push(kind.clone());
                            }
                            self.snaps.push(Some(post.clone()));
                            self.made_by.push(kind.clone());
                            if self.corrupt {
                                // derived from a state an earlier undo/redo failed to restore:
                                // a later redo from a clean state need not reproduce it
                                for i in self.cursor + 1..=self.cursor + k {
                                    self.redo_unreliable.insert(i);
                                }
                            }
                            self.cursor += k;
                            self.walk_clean = true;
                            if which == Which::Redo && r1 != 0 && viol.is_none() {
                                viol = Some(Viol {
                                    check: "redo-discard".into(),
                                    sig: format!("redo-discard|{kind}"),
                                    detail: format!(
                                        "a new operation ({kind}) after partial undo left {r1} entries in the redo list"
                                    ),
                                });
                            }
                        } else if changed {
                            self.local.count(&format!("unrecorded_change.{kind}"));
                            self.barrier(post.clone());
                        }
                    }
                    Err(e) => {
                        self.local.count("failed_calls");
                        self.local.set_add(
                            "failed_call_classes",
                            format!("{kind}: {}", util::erase_digits(e)),
                        );
                        if which == Which::Failed && viol.is_none() {
                            if changed {
                                viol = Some(Viol {
                                    check: "failed-state".into(),
                                    sig: format!("failed-state|{kind}|{cats}"),
                                    detail: format!(
                                        "{:?} returned Err({e}) but changed the workbook: {}",
                                        op,
                                        snap::describe(&d, 6)
                                    ),
                                });
                            } else if u1 != u0 || r1 != r0 {
                                viol = Some(Viol {
                                    check: "failed-history".into(),
                                    sig: format!("failed-history|{kind}"),
                                    detail: format!(
                                        "{:?} returned Err({e}) but undo/redo depths went ({u0},{r0}) -> ({u1},{r1})",
                                        op
                                    ),
                                });
                            } else {
                                self.local.count("failed_checked_ok");
                            }
                        }
                        if changed || u1 != u0 || r1 != r0 {
                            // resynchronise HM with what the engine now holds
                            if u1 > u0 {
                                let k = u1 - u0;
                                self.snaps.truncate(self.cursor + 1);
                                self.made_by.truncate(self.cursor + 1);
                                for _ in 0..k {
                                    self.snaps.push(None);
                                    self.made_by.push(format!("{kind}(failed)"));
                                }
                                self.cursor += k;
                            }
                            self.barrier(post.clone());
                        }
                    }
                }
            }
        }
        viol
    }

    fn panic_viol(&self, check: &str, kind: &str, p: &str) -> Option<Viol> {
        Some(Viol {
            check: format!("{check}-panic"),
            sig: format!("{check}-panic|{kind}|{}", util::panic_site(p)),
            detail: format!("panic during {check} of {kind}: {p}"),
        })
    }

    fn flush(&mut self) -> Option<Viol> {
        let bytes = self.um.flush_send_queue();
        let Some(rep) = self.replica.as_mut() else {
            return None;
        };
        self.local.count("flushes");
        let r = guarded(|| rep.apply_external_diffs(&bytes));
        match r {
            Err(p) => {
                self.dead = true;
                Some(Viol {
                    check: "replica-panic".into(),
                    sig: format!("replica-panic|{}|", util::panic_site(&p)),
                    detail: format!("apply_external_diffs panicked: {p}"),
                })
            }
            Ok(Err(e)) => {
                self.dead = true;
                Some(Viol {
                    check: "replica-apply".into(),
                    sig: format!("replica-apply|{}|{}", self.last_kind, util::erase_digits(&e)),
                    detail: format!("apply_external_diffs failed on bytes the primary produced: {e}"),
                })
            }
            Ok(Ok(())) => {
                let a = snap::snapshot(&self.um, self.opts);
                let b = snap::snapshot(self.replica.as_ref().unwrap(), self.opts);
                if a != b {
                    self.dead = true;
                    let dd = snap::diff(&a, &b);
                    Some(Viol {
                        check: "replica-diverged".into(),
                        sig: format!(
                            "replica-diverged|{}|{}",
                            self.last_kind,
                            snap::categories(&dd).join(",")
                        ),
                        detail: format!(
                            "replica differs from primary after applying all flushed batches (primary -> replica): {}",
                            snap::describe(&dd, 6)
                        ),
                    })
                } else {
                    self.local.count("replica_compared_ok");
                    None
                }
            }
        }
    }

    fn reload(&mut self) -> Option<Viol> {
        let bytes = self.um.to_bytes();
        self.local.count("reloads");
        let r = guarded(|| UserModel::from_bytes(&bytes, "en"));
        let lang = self.um.get_language();
        match r {
            Err(p) => Some(Viol {
                check: "reload-panic".into(),
                sig: format!("reload-panic|{}|", util::panic_site(&p)),
                detail: format!("from_bytes(to_bytes()) panicked: {p}"),
            }),
            Ok(Err(e)) => Some(Viol {
                check: "reload-error".into(),
                sig: format!("reload-error|{}|", util::erase_digits(&e)),
                detail: format!("from_bytes(to_bytes()) failed: {e}"),
            }),
            Ok(Ok(mut other)) => {
                let _ = other.set_language(&lang);
                if other.get_model().workbook != self.um.get_model().workbook {
                    return Some(Viol {
                        check: "reload-struct".into(),
                        sig: "reload-struct|-|".into(),
                        detail: "workbook after to_bytes/from_bytes is not equal (PartialEq) to the original"
                            .into(),
                    });
                }
                other.evaluate();
                let a = snap::snapshot(&self.um, self.opts);
                let b = snap::snapshot(&other, self.opts);
                if a != b {
                    let dd = snap::diff(&a, &b);
                    Some(Viol {
                        check: "reload-values".into(),
                        sig: format!("reload-values|-|{}", snap::categories(&dd).join(",")),
                        detail: format!(
                            "evaluation after reload differs (original -> reloaded): {}",
                            snap::describe(&dd, 6)
                        ),
                    })
                } else {
                    self.local.count("reload_compared_ok");
                    None
                }
            }
        }
    }
}

#[derive(Clone, Debug)]
pub struct Plan {
    pub which: Which,
    pub mode: u8,
    pub nsheets: u32,
    pub len: usize,
}

fn gen_cfg(which: Which, avoid: &[&str]) -> GenCfg {
    let mut cfg = GenCfg::new(avoid);
    if which == Which::Selection {
        cfg.view_ops = true;
    }
    cfg
}

/// Generate-and-run one history. Returns the executed op list and the first violation.
pub fn run_generated(
    rng: &mut StdRng,
    plan: &Plan,
    avoid: &[&str],
    st: &mut Stats,
) -> (Vec<Op>, Option<Viol>) {
    let cfg = gen_cfg(plan.which, avoid);
    let mut r = Runner::new(plan.which, plan.nsheets);
    let mut done: Vec<Op> = vec![];
    let mut viol = None;
    let mut pending: Vec<Op> = vec![];
    let flush_p = match plan.mode % 4 {
        0 => 1.0,
        1 => 0.5,
        2 => 0.1,
        _ => 0.0,
    };
    let mut forward = 0usize;
    while forward < plan.len || !pending.is_empty() {
        let op = if let Some(op) = pending.pop() {
            op
        } else {
            forward += 1;
            let x: f64 = rng.gen();
            match plan.which {
                Which::Undo => {
                    if plan.mode == 0 {
                        // immediate: op, undo, redo
                        let op = ops::gen_op_avoiding(rng, &r.um, &cfg);
                        pending.push(Op::Redo);
                        pending.push(Op::Undo);
                        op
                    } else if forward > plan.len * 2 / 3 {
                        Op::Undo
                    } else if x < 0.08 {
                        Op::Undo
                    } else if x < 0.12 {
                        Op::Redo
                    } else {
                        ops::gen_op_avoiding(rng, &r.um, &cfg)
                    }
                }
                Which::Redo => {
                    if x < 0.30 {
                        Op::Undo
                    } else if x < 0.55 {
                        Op::Redo
                    } else {
                        ops::gen_op_avoiding(rng, &r.um, &cfg)
                    }
                }
                Which::Replica => {
                    if x < 0.12 {
                        Op::Undo
                    } else if x < 0.20 {
                        Op::Redo
                    } else if x < 0.25 && !cfg.avoids("failed_calls") {
                        ops::gen_bad_op(rng, &r.um, &cfg)
                    } else {
                        ops::gen_op_avoiding(rng, &r.um, &cfg)
                    }
                }
                Which::Failed => {
                    if x < 0.10 {
                        Op::Undo
                    } else if x < 0.14 {
                        Op::Redo
                    } else if x < 0.45 {
                        ops::gen_bad_op(rng, &r.um, &cfg)
                    } else {
                        ops::gen_op_avoiding(rng, &r.um, &cfg)
                    }
                }
                Which::Reload => {
                    if x < 0.08 {
                        Op::Undo
                    } else if x < 0.12 {
                        Op::Redo
                    } else if x < 0.22 {
                        Op::Reload
                    } else {
                        ops::gen_op_avoiding(rng, &r.um, &cfg)
                    }
                }
                Which::Structure | Which::Selection => {
                    if x < 0.10 {
                        Op::Undo
                    } else if x < 0.16 {
                        Op::Redo
                    } else if x < 0.26 {
                        ops::gen_bad_op(rng, &r.um, &cfg)
                    } else {
                        ops::gen_op_avoiding(rng, &r.um, &cfg)
                    }
                }
            }
        };
        let is_real = !matches!(op, Op::Flush);
        done.push(op.clone());
        if let Some(v) = r.step(&op) {
            viol = Some(v);
            break;
        }
        if r.dead {
            break;
        }
        if plan.which == Which::Replica && is_real && pending.is_empty() {
            let f: f64 = rng.gen();
            if f < flush_p {
                done.push(Op::Flush);
                if let Some(v) = r.step(&Op::Flush) {
                    viol = Some(v);
                    break;
                }
            }
        }
    }
    if viol.is_none() && !r.dead {
        // end-of-history comparison points
        let tail = match plan.which {
            Which::Replica => Some(Op::Flush),
            Which::Reload => Some(Op::Reload),
            _ => None,
        };
        if let Some(op) = tail {
            done.push(op.clone());
            viol = r.step(&op);
        }
    }
    st.merge(std::mem::take(&mut r.local));
    (done, viol)
}

/// Deterministically re-execute an op list under the oracle of `which`.
pub fn run_ops(which: Which, nsheets: u32, ops_list: &[Op]) -> Option<Viol> {
    let mut r = Runner::new(which, nsheets);
    for op in ops_list {
        if let Some(v) = r.step(op) {
            return Some(v);
        }
        if r.dead {
            return None;
        }
    }
    None
}

/// Greedy one-at-a-time removal (bounded): keeps check and signature fixed.
pub fn shrink(which: Which, nsheets: u32, ops_list: &[Op], check: &str, sig: &str) -> Vec<Op> {
    let mut cur: Vec<Op> = ops_list.to_vec();
    let mut budget = 400;
    let same = |v: &Option<Viol>| matches!(v, Some(x) if x.check == check && x.sig == sig);
    // first: chunk removal
    let mut chunk = cur.len() / 2;
    while chunk >= 1 && budget > 0 {
        let mut i = 0;
        while i + chunk <= cur.len() && budget > 0 {
            let mut cand = cur.clone();
            cand.drain(i..i + chunk);
            budget -= 1;
            if same(&run_ops(which, nsheets, &cand)) {
                cur = cand;
            } else {
                i += chunk;
            }
        }
        chunk /= 2;
    }
    cur
}

fn case_json(plan: &Plan, ops_list: &[Op]) -> Value {
    json!({"which": plan.which.id(), "nsheets": plan.nsheets, "ops": ops_list})
}

fn run_which(ctx: &Ctx, which: Which) -> Stats {
    let quick = ctx.quick();
    let (n, len) = match which {
        Which::Undo => (if quick { 5000 } else { 120000 }, 30),
        Which::Redo => (if quick { 12000 } else { 300000 }, 40),
        Which::Replica => (if quick { 10000 } else { 250000 }, 36),
        Which::Failed => (if quick { 10000 } else { 250000 }, 40),
        Which::Reload => (if quick { 10000 } else { 250000 }, 36),
        Which::Structure => (if quick { 12000 } else { 300000 }, 40),
        Which::Selection => (if quick { 8000 } else { 200000 }, 40),
    };
    // wall budget: only ever cuts the workload short (less coverage), never a verdict
    let budget = Duration::from_secs(if quick { 100 } else { 1500 });
    let seed = ctx.seed;
    let stream = which as u64 + 100;
    // Two passes when open known findings name `avoid` switches: even cases run the
    // clean-room workload (triggers of the known defects impossible, no signature is
    // tolerated: the signature is prefixed so that no known-finding pattern matches it),
    // odd cases run the full workload (known signatures tolerated, anything else reported).
    let two_pass = !ctx.avoid.is_empty();
    // exploration aid: run only clean-room cases
    let clean_only = std::env::var("VERIF_CLEAN_ONLY").is_ok();
    let open: Vec<crate::known::Finding> = ctx
        .findings
        .iter()
        .filter(|f| f.status == "open")
        .cloned()
        .collect();
    crate::par::run_cases(n, ctx.threads, budget, |i, st| {
        let mut rng = util::rng_for(seed, stream, i);
        let clean = two_pass && (i % 2 == 0 || clean_only);
        let avoid: Vec<&str> = if clean {
            ctx.avoid_alt(i / 2)
        } else {
            vec![]
        };
        st.count(if clean {
            "histories.clean_room"
        } else {
            "histories.full"
        });
        let plan = Plan {
            which,
            mode: ((i / 2) % 4) as u8,
            nsheets: 1 + ((i / 2) % 3) as u32,
            len: if which == Which::Undo && (i / 2) % 4 != 0 {
                len * 2
            } else {
                len
            },
        };
        let (done, viol) = run_generated(&mut rng, &plan, &avoid, st);
        if i < 3 {
            st.sample(json!({"history": i, "nsheets": plan.nsheets, "ops": done.iter().take(12).collect::<Vec<_>>(), "ops_total": done.len()}));
        }
        if let Some(v) = viol {
            if !clean {
                if let Some(f) = open.iter().find(|f| f.explains(&v.sig)) {
                    // already explained by a committed open finding: tally without shrinking
                    st.count(&format!("known_hit.{}", f.id));
                    return;
                }
            }
            let small = if std::env::var("VERIF_NOSHRINK").is_ok() {
                done.clone()
            } else {
                shrink(which, plan.nsheets, &done, &v.check, &v.sig)
            };
            let v2 = run_ops(which, plan.nsheets, &small).unwrap_or(v);
            // A verdict needs a witness that replays: re-execute it twice more (fresh
            // models, hence fresh hash seeds). A witness that does not reproduce is
            // counted as inconclusive (hash-order dependent), never as a violation.
            let again = (0..2).all(|_| {
                matches!(run_ops(which, plan.nsheets, &small), Some(x) if x.check == v2.check && x.sig == v2.sig)
            });
            if !again {
                st.inconclusive += 1;
                st.count("witness_not_reproducible");
                st.notes.push(format!("not reproducible: {} {}", v2.sig, v2.detail.chars().take(200).collect::<String>()));
                return;
            }
            let sig = if clean {
                format!("cleanroom/{}", v2.sig)
            } else {
                v2.sig.clone()
            };
            if let Some(f) = open.iter().find(|f| f.explains(&sig)) {
                // explained by a committed open finding: tally, do not stop the workload
                st.count(&format!("known_hit.{}", f.id));
                return;
            }
            st.violation(&v2.check, sig, v2.detail.clone(), case_json(&plan, &small));
        }
    })
}

fn replay_case(_ctx: &Ctx, case: &Value) -> Vec<Violation> {
    let which = case
        .get("which")
        .and_then(|w| w.as_str())
        .and_then(Which::from_id);
    let Some(which) = which else {
        return vec![];
    };
    let nsheets = case.get("nsheets").and_then(|n| n.as_u64()).unwrap_or(1) as u32;
    let ops_list: Vec<Op> = match serde_json::from_value(case.get("ops").cloned().unwrap_or(Value::Null)) {
        Ok(o) => o,
        Err(e) => {
            eprintln!("HARNESS-ERROR: bad replay ops: {e}");
            return vec![];
        }
    };
    if std::env::var("VERIF_SHRINK").is_ok() {
        if let Some(v) = run_ops(which, nsheets, &ops_list) {
            let small = shrink(which, nsheets, &ops_list, &v.check, &v.sig);
            println!("shrunk to {} ops: {}", small.len(), serde_json::to_string(&small).unwrap());
            if let Ok(out) = std::env::var("VERIF_SHRINK_OUT") {
                let body = json!({"property": which.id(), "signature": v.sig, "detail": v.detail,
                    "case": {"which": which.id(), "nsheets": nsheets, "ops": small}});
                let _ = std::fs::write(out, serde_json::to_string_pretty(&body).unwrap());
            }
        }
    }
    match run_ops(which, nsheets, &ops_list) {
        Some(v) => vec![Violation {
            check: v.check,
            sig: v.sig,
            detail: v.detail,
            case: case.clone(),
        }],
        None => vec![],
    }
}

macro_rules! hist_prop {
    ($id:expr, $which:expr, $level:expr, $rule:expr, $fname:ident) => {{
        fn $fname(ctx: &Ctx) -> Stats {
            run_which(ctx, $which)
        }
        PropInfo {
            id: $id,
            level: $level,
            rule: $rule,
            assumptions: HIST_ASSUMPTIONS,
            run: $fname,
            replay: replay_case,
        }
    }};
}

const HIST_ASSUMPTIONS: &[&str] = &[
    "observable state = snapshot S (contents, values, formatted values, resolved styles, sizes, hidden flags, sheets, panes, grid lines, names, named styles, links, conditional formats, theme, name/locale/timezone); per-user view state is excluded except in C28",
    "an absent cell and an empty cell carrying the style it inherits are the same fact set; interned tables and sheet ids are not observable",
    "histories live on an 8x6 window of 1-3 sheets plus grid-edge coordinates; volatile functions are not generated",
    "generator switches listed under 'avoid' (from open known findings) are excluded from this run's workload",
];

pub fn props() -> Vec<PropInfo> {
    vec![
        hist_prop!("C01", Which::Undo, "exploration", "random op histories through UserModel (immediate op/undo/redo and long walks); a case is one API call; shape key = (op kind, outcome, fact categories changed); non-trivial = call returned and its effect on S was classified", run_c01),
        hist_prop!("C02", Which::Redo, "exploration", "random cursor walks (30% undo, 25% redo, rest new operations) over op histories; shape key = (op kind, outcome, fact categories changed)", run_c02),
        hist_prop!("C03", Which::Replica, "exploration", "op histories with undo/redo and invalid calls on a primary; replica applies every flushed batch; flush policy per history in {every call, p=0.5, p=0.1, once at end}; shape key as C01", run_c03),
        hist_prop!("C04", Which::Failed, "fault_enumeration", "valid histories interleaved with ~30% invalid-argument calls generated from the current state (46 invalid classes) with non-empty undo and redo stacks; shape key = (op kind, outcome, categories)", run_c04),
        hist_prop!("C26", Which::Reload, "exploration", "op histories with to_bytes/from_bytes comparison points at random positions and at the end; shape key as C01", run_c26),
        hist_prop!("C27", Which::Structure, "exploration", "structure walker W after every API call (valid, invalid, undo, redo) of random histories; shape key as C01", run_c27),
        hist_prop!("C28", Which::Selection, "exploration", "selection walker V after every API call of histories enriched with selection/navigation/window operations and sheet deletion/move/hide; shape key as C01", run_c28),
    ]
}
