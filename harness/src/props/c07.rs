//! C07 — evaluation is deterministic and independent of editing order.
//! Oracle: the same set of cell inputs is turned into a workbook along several routes
//! (entry order, evaluation after every edit or once, a save-and-reload in the middle,
//! a second evaluation); the values shown by every cell must be identical on all routes.

use super::{Ctx, PropInfo};
use crate::evid::{Stats, Violation};
use crate::props::eval::{gen_acyclic, Cells};
use crate::refeval::{engine_value, V};
use crate::util::{guarded, pick};
use ironcalc_base::Model;
use rand::seq::SliceRandom;
use rand::Rng;
use serde_json::{json, Value};
use std::collections::BTreeMap;
use std::time::Duration;

type Values = BTreeMap<(u32, i32, i32), String>;

fn values(m: &Model) -> Values {
    let mut out = Values::new();
    for (si, ws) in m.workbook.worksheets.iter().enumerate() {
        for (r, row) in &ws.sheet_data {
            for c in row.keys() {
                let v = match engine_value(m, si as u32, *r, *c) {
                    // to the 15 significant digits the engine displays: a reload re-associates
                    // x+(y-z) as x+y-z (the printer's pinned behaviour, see C09), which may move the last bits
                    Ok(V::Num(x)) => format!("n:{:.11e}", if x == 0.0 { 0.0 } else { x }),
                    Ok(V::Empty) => continue,
                    Ok(v) => format!("{:?}", v),
                    Err(_) => "unevaluated".to_string(),
                };
                out.insert((si as u32, *r, *c), v);
            }
        }
    }
    out
}

/// route: order of entry, evaluate after each edit?, reload after `reload_at` edits, evaluations at the end
fn build(nsheets: u32, cells: &Cells, order: &[usize], each: bool, reload_at: Option<usize>, final_evals: usize) -> Option<Values> {
    let mut m = Model::new_empty("wb", "en", "UTC", "en").ok()?;
    for _ in 1..nsheets {
        m.new_sheet();
    }
    for (k, &i) in order.iter().enumerate() {
        let (s, r, c, t) = &cells[i];
        m.set_user_input(*s, *r, *c, t.clone()).ok()?;
        if each {
            m.evaluate();
        }
        if reload_at == Some(k) {
            m = Model::from_bytes(&m.to_bytes(), "en").ok()?;
        }
    }
    for _ in 0..final_evals {
        m.evaluate();
    }
    Some(values(&m))
}

fn check(nsheets: u32, cells: &Cells, perm: &[usize], st: &mut Stats) -> Option<(String, String)> {
    let natural: Vec<usize> = (0..cells.len()).collect();
    let reversed: Vec<usize> = natural.iter().rev().cloned().collect();
    let base = guarded(|| build(nsheets, cells, &natural, false, None, 1)).ok()??;
    st.evaluations += 1;
    let routes: Vec<(&str, Vec<usize>, bool, Option<usize>, usize)> = vec![
        ("evaluated-twice", natural.clone(), false, None, 2),
        ("evaluate-after-every-edit", natural.clone(), true, None, 1),
        ("reverse-entry-order", reversed, false, None, 1),
        ("shuffled-entry-order", perm.to_vec(), false, None, 1),
        ("shuffled-order-evaluate-every-edit", perm.to_vec(), true, None, 1),
        ("reload-in-the-middle", natural.clone(), true, Some(cells.len() / 2), 1),
        ("reload-at-the-end", natural.clone(), false, Some(cells.len().saturating_sub(1)), 1),
    ];
    for (name, order, each, reload, evals) in routes {
        let Ok(Some(v)) = guarded(|| build(nsheets, cells, &order, each, reload, evals)) else {
            st.count("route_failed_to_build");
            continue;
        };
        st.set_add("routes_compared", name.to_string());
        if v != base {
            let diff: Vec<String> = base
                .keys()
                .chain(v.keys())
                .collect::<std::collections::BTreeSet<_>>()
                .into_iter()
                .filter(|k| base.get(k) != v.get(k))
                .take(4)
                .map(|k| format!("s{}!R{}C{}: {:?} vs {:?}", k.0, k.1, k.2, base.get(k), v.get(k)))
                .collect();
            return Some((name.to_string(), format!("route {name} differs from entering the inputs in order and evaluating once: {}", diff.join("; "))));
        }
    }
    None
}

const ARRAYS: &[&str] = &["=SEQUENCE(2,2)", "=SEQUENCE(3)", "=A1:B2*2", "=TRANSPOSE(A1:B3)", "=A1:A3&\"x\"", "=SEQUENCE(2,2)*D1", "=SUM(SEQUENCE(3))+C1:C2", "=ABS(B1:B3)", "=C3:E4", "=IF(A1:C1>0,1,\"n\")"];
const READERS: &[&str] = &["=A9:A10*2", "=B8:C9&\"\"", "=E9:E10+1", "=SUM(A8:C10)", "=A8#", "=A9+E9", "=COUNT(E8:G10)", "=E8#*2", "=CONCAT(A12:C14)", "=A12#", "=SUM(A8#)+B1", "=ISBLANK(B9)", "=A10&E10"];

/// Dynamic arrays live below the grid of plain inputs (rows 8-14), in blocks that cannot
/// reach each other; they read the grid, and formulas further down (rows 16+) read the spills.
/// Two arrays competing for the same cells, and cycles closed through a spill, are left out:
/// which of two colliding arrays wins is a matter of history in every spreadsheet.
fn has_whole_line_range(t: &str) -> bool {
    let chars: Vec<char> = t.chars().collect();
    for (i, ch) in chars.iter().enumerate() {
        if *ch != ':' {
            continue;
        }
        let left: String = chars[..i].iter().rev().take_while(|c| c.is_ascii_alphanumeric() || **c == '$').collect();
        let right: String = chars[i + 1..].iter().take_while(|c| c.is_ascii_alphanumeric() || **c == '$').collect();
        let letters = |s: &str| !s.is_empty() && s.chars().all(|c| c.is_ascii_alphabetic() || c == '$');
        let digits = |s: &str| !s.is_empty() && s.chars().all(|c| c.is_ascii_digit() || c == '$');
        if (letters(&left) && letters(&right)) || (digits(&left) && digits(&right)) {
            return true;
        }
    }
    false
}

fn gen(rng: &mut rand::rngs::StdRng, nsheets: u32, arrays: bool) -> Cells {
    let mut cells = gen_acyclic(rng, nsheets);
    // x+(y+z) is re-printed as x+y+z by a reload (the printer behaviour pinned by a test and
    // listed under C09): after catastrophic cancellation or with two different errors the
    // re-associated formula legitimately computes something else, so that shape is left to C09
    cells.retain(|x| !x.3.contains("+("));
    if arrays {
        // whole-column / whole-row ranges would reach down into the array blocks and close cycles
        cells.retain(|x| !has_whole_line_range(&x.3));
        for (r, c) in [(8, 1), (8, 5), (12, 1)] {
            if rng.gen_bool(0.7) {
                cells.push((0, r, c, (*pick(rng, ARRAYS)).to_string()));
            }
            // sometimes something is in the way of the spill
            if rng.gen_bool(0.2) {
                cells.push((0, r + rng.gen_range(0..3), c + rng.gen_range(1..3), (*pick(rng, &["7", "x", "=1+1"])).to_string()));
            }
        }
        // a dynamic array placed BEFORE its sources in evaluation order that reads only the
        // non-anchor cells of their spills (column D is free between the blocks)
        if rng.gen_bool(0.5) {
            cells.push((0, 7, 4, (*pick(rng, &["=A9:A10*2", "=E9:E10+1", "=C8:C9&\"\"", "=B9:B10", "=F9:F10*1"])).to_string()));
        }
        for (k, (r, c)) in [(16, 1), (16, 5), (20, 1), (20, 5)].iter().enumerate() {
            if rng.gen_bool(0.6) {
                let _ = k;
                cells.push((0, *r, *c, (*pick(rng, READERS)).to_string()));
            }
        }
        cells.shuffle(rng);
    }
    cells
}

/// where the dynamic arrays of a (shrunk) witness sit: the generator only puts them below
/// the grid of plain inputs; arrays inside the grid can close cycles through their spills
fn layout(cells: &Cells) -> &'static str {
    let is_array = |t: &str| t.contains('#') || t.contains("SEQUENCE") || t.contains("TRANSPOSE") || (t.contains(':') && !t[1..].chars().next().map(|c| c.is_ascii_alphabetic() && t.contains('(')).unwrap_or(false) && !t.contains("SUM(") && !t.contains("COUNT(") && !t.contains("CONCAT("));
    let arrays: Vec<&(u32, i32, i32, String)> = cells.iter().filter(|x| x.3.starts_with('=') && is_array(&x.3)).collect();
    if arrays.is_empty() {
        "scalar"
    } else if arrays.iter().any(|x| x.1 <= 6) {
        "arrays-in-grid"
    } else {
        "arrays-below-grid"
    }
}

fn run(ctx: &Ctx) -> Stats {
    let n = ctx.n(8_000, 600_000);
    let seed = ctx.seed;
    crate::par::run_cases(n, ctx.threads, Duration::from_secs(if ctx.quick() { 80 } else { 1500 }), |i, st| {
        let mut rng = crate::util::rng_for(seed, 7, i);
        let nsheets = 1 + (i % 2) as u32;
        let arrays = i % 2 == 0;
        let cells = gen(&mut rng, nsheets, arrays);
        let mut perm: Vec<usize> = (0..cells.len()).collect();
        perm.shuffle(&mut rng);
        st.shape(format!("{}:{}:{}", nsheets, arrays, cells.len() / 4));
        if i < 2 {
            st.sample(json!({"nsheets": nsheets, "cells": cells.iter().take(8).collect::<Vec<_>>(), "total": cells.len()}));
        }
        if let Some((route, detail)) = check(nsheets, &cells, &perm, st) {
            // shrink: drop inputs while the same route still differs
            let mut small = cells.clone();
            let mut p = perm.clone();
            let mut j = small.len();
            while j > 0 {
                j -= 1;
                let mut cand = small.clone();
                cand.remove(j);
                let mut cp: Vec<usize> = p.iter().filter(|x| **x != j).map(|x| if *x > j { *x - 1 } else { *x }).collect();
                if cp.len() != cand.len() {
                    cp = (0..cand.len()).collect();
                }
                let mut scratch = Stats::default();
                if matches!(check(nsheets, &cand, &cp, &mut scratch), Some((r2, _)) if r2 == route) {
                    small = cand;
                    p = cp;
                }
            }
            let mut scratch = Stats::default();
            let detail = check(nsheets, &small, &p, &mut scratch).map(|x| x.1).unwrap_or(detail);
            ctx.report(st, "route-differs", format!("route-differs|{route}|{}", layout(&small)), detail, json!({"nsheets": nsheets, "cells": small, "perm": p}));
        }
    })
}

fn replay(_ctx: &Ctx, case: &Value) -> Vec<Violation> {
    let nsheets = case.get("nsheets").and_then(|n| n.as_u64()).unwrap_or(1) as u32;
    let Ok(cells) = serde_json::from_value::<Cells>(case.get("cells").cloned().unwrap_or(Value::Null)) else { return vec![] };
    let perm: Vec<usize> = serde_json::from_value(case.get("perm").cloned().unwrap_or(Value::Null)).unwrap_or_else(|_| (0..cells.len()).collect());
    let mut st = Stats::default();
    match check(nsheets, &cells, &perm, &mut st) {
        Some((route, detail)) => {
            vec![Violation { check: "route-differs".into(), sig: format!("route-differs|{route}|{}", layout(&cells)), detail, case: case.clone() }]
        }
        None => vec![],
    }
}

pub fn props() -> Vec<PropInfo> {
    vec![PropInfo {
        id: "C07",
        level: "exploration",
        rule: "random sets of cell inputs (acyclic core-language formulas over 1-2 sheets, constants of every type, and in half of the cases dynamic arrays whose spills feed or collide with the other inputs) are entered along eight routes: in order with one evaluation (reference), evaluated twice, evaluated after every edit, in reverse order, in a shuffled order with and without evaluation after every edit, with to_bytes/from_bytes in the middle and at the end; the values shown by all cells (spills included) must be identical; shape key = (sheets, arrays?, size class)",
        assumptions: &["inputs are distinct cells, each typed once; volatile functions are not generated", "numbers are compared to 12 significant digits (re-printing a formula may re-associate x+(y-z) and move the last bits) (negative zero equals zero), everything else exactly"],
        run,
        replay,
    }]
}
