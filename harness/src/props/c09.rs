//! C09 — printing a formula and parsing it back preserves its meaning.

use super::{Ctx, PropInfo};
use crate::evid::{Stats, Violation};
use crate::fgen::{self, Dialect, F};
use crate::nodeutil::{contains_parse_error, skeleton};
use ironcalc_base::expressions::lexer::LexerMode;
use ironcalc_base::expressions::parser::static_analysis::add_implicit_intersection;
use ironcalc_base::expressions::parser::stringify::{to_excel_string, to_localized_string, to_rc_format};
use ironcalc_base::expressions::parser::{Node, Parser};
use ironcalc_base::expressions::types::CellReferenceRC;
use serde_json::{json, Value};
use std::collections::HashMap;
use std::time::Duration;

fn sheets() -> Vec<String> {
    fgen::SHEETS.iter().map(|s| s.to_string()).collect()
}

fn ctx_cell() -> CellReferenceRC {
    CellReferenceRC { sheet: "Sheet1".into(), row: 3, column: 3 }
}

fn short(n: &Node) -> String {
    format!("{:?}", n).chars().take(300).collect()
}

fn has_at_or_hash(n: &Node) -> bool {
    let mut found = false;
    crate::nodeutil::walk(n, &mut |x| {
        if matches!(x, Node::ImplicitIntersection { .. } | Node::SpillRangeOperator { .. }) {
            found = true;
        }
    });
    found
}

/// Check all print forms of the tree parsed from `text` (typed in dialect d).
/// Returns (form, outer/inner class, detail) of the first failure.
pub fn check_text(text: &str, d: &Dialect, st: &mut Stats) -> Option<(String, String)> {
    let cell = ctx_cell();
    let mut p = Parser::new(sheets(), vec![], HashMap::new(), d.locale, d.language);
    let node = p.parse(text, &cell);
    if contains_parse_error(&node) {
        st.count("input_not_accepted_by_parser");
        return None;
    }
    st.evaluations += 1;
    // 1. display form in the same language/locale
    let shown = to_localized_string(&node, &cell, d.locale, d.language);
    let back = p.parse(&shown, &cell);
    if back != node {
        return Some((
            "display".into(),
            format!("[{}/{}] typed {text:?} -> tree {} ; displayed {shown:?} -> tree {}", d.lang_id, d.locale_id, short(&node), short(&back)),
        ));
    }
    // 2. internal stored form (R1C1, English)
    let en = Dialect::new("en", "en");
    let mut pe = Parser::new(sheets(), vec![], HashMap::new(), en.locale, en.language);
    let rc = to_rc_format(&node);
    pe.set_lexer_mode(LexerMode::R1C1);
    let back = pe.parse(&rc, &cell);
    pe.set_lexer_mode(LexerMode::A1);
    if back != node {
        return Some((
            "internal".into(),
            format!("[{}/{}] typed {text:?} -> tree {} ; stored {rc:?} -> tree {}", d.lang_id, d.locale_id, short(&node), short(&back)),
        ));
    }
    // 3. xlsx export form (English), read back as the importer does
    if !has_at_or_hash(&node) {
        let x = to_excel_string(&node, &cell);
        let mut back = pe.parse(&x, &cell);
        add_implicit_intersection(&mut back, true);
        let mut want = node.clone();
        add_implicit_intersection(&mut want, true);
        if back != want {
            return Some((
                "xlsx".into(),
                format!("[{}/{}] typed {text:?} -> tree {} ; exported {x:?} -> tree {}", d.lang_id, d.locale_id, short(&want), short(&back)),
            ));
        }
        st.count("xlsx_form_checked");
    }
    st.shape(skeleton(&node, 3));
    None
}

fn classes(f: &F) -> String {
    fn k(f: &F) -> &'static str {
        match f {
            F::Bin(op, ..) => op,
            F::Neg(_) => "neg",
            F::Pct(_) => "pct",
            F::At(_) => "at",
            F::Hash(_) => "hash",
            F::RangeOp(..) => "rangeop",
            F::Call(..) => "call",
            F::Arr(_) => "arr",
            F::Ref(r) => {
                if r.starts_with("Ghost") {
                    "ghostref"
                } else {
                    "ref"
                }
            }
            F::Var(_) => "var",
            F::LambdaCall(..) => "lambdacall",
            F::Let(..) => "let",
            F::Str(_) => "str",
            F::Err(_) => "err",
            F::Bool(_) => "bool",
            F::Num(_) => "num",
        }
    }
    match f {
        F::Bin(op, a, b) => format!("{}({},{})", op, k(a), k(b)),
        F::RangeOp(a, b) => format!("rangeop({},{})", k(a), k(b)),
        F::Neg(a) => format!("neg({})", k(a)),
        F::Pct(a) => format!("pct({})", k(a)),
        F::At(a) => format!("at({})", k(a)),
        F::Hash(a) => format!("hash({})", k(a)),
        other => k(other).to_string(),
    }
}

fn pairs() -> Vec<(&'static str, &'static str)> {
    let mut v = vec![];
    for l in fgen::LANGS {
        for loc in fgen::LOCALES {
            v.push((*l, *loc));
        }
    }
    v
}

fn run(ctx: &Ctx) -> Stats {
    let pairs = pairs();
    let seed = ctx.seed;
    let quick = ctx.quick();
    // part 1: bounded-exhaustive (outer kind, inner kind, side) with rotating leaves, in every pair
    let n1 = (fgen::KINDS * fgen::KINDS * 2) as u64;
    let mut st = crate::par::run_cases(n1, ctx.threads, Duration::from_secs(300), |i, st| {
        let outer = (i as usize) / (fgen::KINDS * 2);
        let inner = ((i as usize) / 2) % fgen::KINDS;
        let left = i % 2 == 0;
        let mut rng = crate::util::rng_for(seed, 9, i);
        for (pi, (lang, loc)) in pairs.iter().enumerate() {
            let d = Dialect::new(lang, loc);
            for _ in 0..(if quick { 3 } else { 12 }) {
                let inner_tree = fgen::build(inner, fgen::leaf(&mut rng), fgen::leaf(&mut rng));
                let other = fgen::leaf(&mut rng);
                let tree = if left { fgen::build(outer, inner_tree, other) } else { fgen::build(outer, other, inner_tree) };
                let text = fgen::print(&tree, &d);
                if let Some((form, detail)) = check_text(&text, &d, st) {
                    let class = format!("{}>{}:{}", fgen::kind_name(outer), fgen::kind_name(inner), if left { "L" } else { "R" });
                    ctx.report(st, &form, format!("{form}|{class}|{}", classes(&tree)), detail, json!({"text": text, "language": lang, "locale": loc}));
                    if st.violations.len() > 20 {
                        return;
                    }
                }
            }
            if i == 0 && pi == 0 {
                st.sample(json!({"typed": fgen::print(&fgen::build(outer, fgen::build(inner, fgen::leaf(&mut rng), fgen::leaf(&mut rng)), fgen::leaf(&mut rng)), &d), "language": lang, "locale": loc}));
            }
        }
    });
    st.extra.insert("exhaustive".into(), json!(true));
    st.extra.insert("exhaustive_scope".into(), json!(format!("{} (outer, inner, side) operator classes x 30 language/locale pairs", n1)));
    // part 2: random deeper trees
    let n2 = ctx.n(6000, 400_000);
    let st2 = crate::par::run_cases(n2, ctx.threads, Duration::from_secs(if quick { 90 } else { 1200 }), |i, st| {
        let mut rng = crate::util::rng_for(seed, 90, i);
        let (lang, loc) = pairs[(i % pairs.len() as u64) as usize];
        let d = Dialect::new(lang, loc);
        let tree = fgen::random_tree(&mut rng, 3 + (i % 2) as u32);
        if fgen::has_plus_right_nested(&tree) {
            // judged as its own class in the bounded-exhaustive part (known finding F-C09-plus-right)
            st.count("random_trees_skipped_plus_right_nested");
            return;
        }
        let text = fgen::print(&tree, &d);
        if i < 3 {
            st.sample(json!({"typed": text, "language": lang, "locale": loc}));
        }
        if let Some((form, detail)) = check_text(&text, &d, st) {
            ctx.report(st, &form, format!("{form}|random|{}", classes(&tree)), detail, json!({"text": text, "language": lang, "locale": loc}));
        }
    });
    st.merge(st2);
    st
}

fn replay(_ctx: &Ctx, case: &Value) -> Vec<Violation> {
    let text = case.get("text").and_then(|t| t.as_str()).unwrap_or("1");
    let lang = case.get("language").and_then(|t| t.as_str()).unwrap_or("en");
    let loc = case.get("locale").and_then(|t| t.as_str()).unwrap_or("en");
    let d = Dialect::new(lang, loc);
    let mut st = Stats::default();
    match check_text(text, &d, &mut st) {
        Some((form, detail)) => vec![Violation {
            check: form.clone(),
            sig: case.get("sig").and_then(|s| s.as_str()).map(|s| s.to_string()).unwrap_or(format!("{form}|replay|")),
            detail,
            case: case.clone(),
        }],
        None => vec![],
    }
}

pub fn props() -> Vec<PropInfo> {
    vec![PropInfo {
        id: "C09",
        level: "exploration",
        rule: "formula texts printed by the harness with every operator operand parenthesised (so the parser builds exactly the generated tree): all (outer operator, inner operator, side) classes over {= <> < > <= >= & + - * / ^ neg % @ # :} with rotating leaves (numbers, strings with quotes, booleans, errors, references incl. quoted-sheet and missing-sheet, ranges, array literals, function calls) in all 30 language/locale pairs, plus random trees of depth 3-4; each tree is printed in display, internal (R1C1) and xlsx form and parsed back; shape key = operator skeleton of the tree to depth 3",
        assumptions: &[
            "a text the parser rejects is not a 'formula the parser accepts' and is skipped (counted)",
            "the xlsx form is read back the way the importer does (English parse followed by add_implicit_intersection) and compared with the original tree normalised the same way; trees with explicit @ or # are not checked in the xlsx form",
            "equality is structural equality of the engine's public Node type",
        ],
        run,
        replay,
    }]
}
