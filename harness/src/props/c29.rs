//! C29 — row and column attributes change independently.
//! Oracle: an attribute table (width, hidden, style per column; height, hidden, style per
//! row) read through public getters before and after each call; exactly the targeted
//! attribute of the targeted line may differ.

use super::{Ctx, PropInfo};
use crate::evid::{Stats, Violation};
use crate::util::guarded;
use ironcalc_base::types::{Col, Style};
use ironcalc_base::{Model, UserModel};
use rand::rngs::StdRng;
use rand::Rng;
use serde::{Deserialize, Serialize};
use serde_json::{json, Value};
use std::collections::BTreeMap;
use std::time::Duration;

#[derive(Clone, Debug, Serialize, Deserialize, PartialEq)]
pub enum AOp {
    ColWidth(i32, f64),
    ColHidden(i32, bool),
    ColStyle(i32, u8),
    ColStyleDelete(i32),
    RowHeight(i32, f64),
    RowHidden(i32, bool),
    RowStyle(i32, u8),
    RowStyleDelete(i32),
    /// the UserModel range forms
    UColsWidth(i32, i32, f64),
    UColsHidden(i32, i32, bool),
    URowsHeight(i32, i32, f64),
    URowsHidden(i32, i32, bool),
    Undo,
}

#[derive(Clone, Debug, Serialize, Deserialize)]
pub struct Case {
    /// initial column descriptors: (min, max, width in engine units, custom_width, hidden, style id or 255)
    pub cols: Vec<(i32, i32, f64, bool, bool, u8)>,
    pub ops: Vec<AOp>,
}

fn style(k: u8) -> Style {
    let mut s = Style::default();
    match k % 4 {
        0 => s.font.b = true,
        1 => s.font.i = true,
        2 => s.num_fmt = "0.00".to_string(),
        _ => {
            s.font.b = true;
            s.font.u = true
        }
    }
    s
}

type Table = BTreeMap<String, String>;

fn table(m: &Model, lines: &[i32]) -> Table {
    let mut t = Table::new();
    let ws = &m.workbook.worksheets[0];
    for &c in lines {
        if (1..=16384).contains(&c) {
            t.insert(format!("col{c}.width"), format!("{:?}", ws.get_actual_column_width(c)));
            t.insert(format!("col{c}.hidden"), format!("{:?}", m.is_column_hidden(0, c)));
            let cs = match m.get_column_style(0, c) {
                Ok(Some(s)) if s == Style::default() => Ok(None),
                other => other,
            };
            t.insert(format!("col{c}.style"), format!("{:?}", cs));
        }
    }
    for &r in lines {
        if (1..=1048576).contains(&r) {
            let stored = ws.rows.iter().find(|x| x.r == r).map(|x| x.height * ironcalc_base::ROW_HEIGHT_FACTOR).unwrap_or(25.0);
            t.insert(format!("row{r}.height"), format!("{stored}"));
            t.insert(format!("row{r}.hidden"), format!("{:?}", m.is_row_hidden(0, r)));
            // a row descriptor without a style reads back as the default style: that is "no style"
            let rs = match m.get_row_style(0, r) {
                Ok(Some(s)) if s == Style::default() => Ok(None),
                other => other,
            };
            t.insert(format!("row{r}.style"), format!("{:?}", rs));
        }
    }
    t
}

/// the (line keys, attribute) the operation is allowed to change
fn allowed(op: &AOp) -> Vec<String> {
    match op {
        AOp::ColWidth(c, _) => vec![format!("col{c}.width")],
        AOp::ColHidden(c, _) => vec![format!("col{c}.hidden")],
        AOp::ColStyle(c, _) | AOp::ColStyleDelete(c) => vec![format!("col{c}.style")],
        AOp::RowHeight(r, _) => vec![format!("row{r}.height")],
        AOp::RowHidden(r, _) => vec![format!("row{r}.hidden")],
        AOp::RowStyle(r, _) | AOp::RowStyleDelete(r) => vec![format!("row{r}.style")],
        AOp::UColsWidth(a, b, _) => (*a..=*b).map(|c| format!("col{c}.width")).collect(),
        AOp::UColsHidden(a, b, _) => (*a..=*b).map(|c| format!("col{c}.hidden")).collect(),
        AOp::URowsHeight(a, b, _) => (*a..=*b).map(|r| format!("row{r}.height")).collect(),
        AOp::URowsHidden(a, b, _) => (*a..=*b).map(|r| format!("row{r}.hidden")).collect(),
        AOp::Undo => vec![],
    }
}

/// the value the targeted attribute must have afterwards (None = any)
fn wanted(op: &AOp) -> Option<String> {
    Some(match op {
        AOp::ColWidth(_, w) | AOp::UColsWidth(_, _, w) => format!("{:?}", Ok::<f64, String>(*w)),
        AOp::ColHidden(_, h) | AOp::UColsHidden(_, _, h) => format!("{:?}", Ok::<bool, String>(*h)),
        AOp::RowHidden(_, h) | AOp::URowsHidden(_, _, h) => format!("{:?}", Ok::<bool, String>(*h)),
        AOp::ColStyle(_, k) => format!("{:?}", Ok::<Option<Style>, String>(Some(style(*k)))),
        AOp::RowStyle(_, k) => format!("{:?}", Ok::<Option<Style>, String>(Some(style(*k)))),
        AOp::ColStyleDelete(_) | AOp::RowStyleDelete(_) => format!("{:?}", Ok::<Option<Style>, String>(None)),
        AOp::RowHeight(_, h) | AOp::URowsHeight(_, _, h) => format!("{h}"),
        AOp::Undo => return None,
    })
}

fn apply(um: &mut UserModel, op: &AOp) -> Result<(), String> {
    // the raw Model entry points are reached through a Model built from the same bytes;
    // UserModel exposes only the range forms, so the raw forms run on `um`'s model copy
    match op {
        AOp::UColsWidth(a, b, w) => um.set_columns_width(0, *a, *b, *w),
        AOp::UColsHidden(a, b, h) => um.set_columns_hidden(0, *a, *b, *h),
        AOp::URowsHeight(a, b, h) => um.set_rows_height(0, *a, *b, *h),
        AOp::URowsHidden(a, b, h) => um.set_rows_hidden(0, *a, *b, *h),
        AOp::Undo => um.undo(),
        _ => Err("raw".into()),
    }
}

fn apply_raw(m: &mut Model, op: &AOp) -> Result<(), String> {
    match op {
        AOp::ColWidth(c, w) => m.set_column_width(0, *c, *w),
        AOp::ColHidden(c, h) => m.set_column_hidden(0, *c, *h),
        AOp::ColStyle(c, k) => m.set_column_style(0, *c, &style(*k)),
        AOp::ColStyleDelete(c) => m.delete_column_style(0, *c),
        AOp::RowHeight(r, h) => m.set_row_height(0, *r, *h),
        AOp::RowHidden(r, h) => m.set_row_hidden(0, *r, *h),
        AOp::RowStyle(r, k) => m.set_row_style(0, *r, &style(*k)),
        AOp::RowStyleDelete(r) => m.delete_row_style(0, *r),
        _ => Err("user".into()),
    }
}

fn is_raw(op: &AOp) -> bool {
    !matches!(op, AOp::UColsWidth(..) | AOp::UColsHidden(..) | AOp::URowsHeight(..) | AOp::URowsHidden(..) | AOp::Undo)
}

fn lines_of(case: &Case) -> Vec<i32> {
    let mut v: Vec<i32> = (1..=14).collect();
    for (a, b, ..) in &case.cols {
        for x in [a - 1, *a, a + 1, b - 1, *b, b + 1] {
            v.push(x);
        }
    }
    v.extend([16383, 16384, 1048575, 1048576]);
    v.sort_unstable();
    v.dedup();
    v.retain(|x| *x >= 1);
    v
}

fn run_case(case: &Case, st: &mut Stats) -> Option<(String, String, String)> {
    let mut model = Model::new_empty("a", "en", "UTC", "en").ok()?;
    // hand-built descriptors, as an imported file has them
    let mut cols = vec![];
    for (min, max, width, custom, hidden, k) in &case.cols {
        let style_index = if *k == 255 { None } else { Some(model.workbook.styles.create_new_style(&style(*k))) };
        cols.push(Col { min: *min, max: *max, width: *width, custom_width: *custom, hidden: *hidden, style: style_index });
    }
    model.workbook.worksheets[0].cols = cols;
    let lines = lines_of(case);
    // raw Model operations first, then the UserModel forms (with undo) on a UserModel built from it
    let mut um: Option<UserModel> = None;
    for (i, op) in case.ops.iter().enumerate() {
        st.evaluations += 1;
        let before;
        let res;
        let after;
        if is_raw(op) && um.is_none() {
            before = table(&model, &lines);
            res = guarded(|| apply_raw(&mut model, op));
            after = table(&model, &lines);
        } else {
            if um.is_none() {
                let bytes = model.to_bytes();
                um = Some(UserModel::from_bytes(&bytes, "en").ok()?);
            }
            let u = um.as_mut()?;
            if is_raw(op) {
                continue; // raw operations only run in the first phase
            }
            before = table(u.get_model(), &lines);
            res = guarded(|| apply(u, op));
            after = table(u.get_model(), &lines);
        }
        let kind = format!("{:?}", op).split('(').next().unwrap_or("?").to_string();
        let ok = match res {
            Err(p) => return Some(("panic".into(), kind, format!("step {i} {:?} panicked: {p}", op))),
            Ok(Err(_)) => false,
            Ok(Ok(())) => true,
        };
        if *op == AOp::Undo {
            continue; // undo is C01's subject; it only moves this history along
        }
        let allow = if ok { allowed(op) } else { vec![] };
        for (k, v0) in &before {
            let v1 = after.get(k);
            if v1 != Some(v0) && !allow.contains(k) {
                let attr = k.split('.').nth(1).unwrap_or("?");
                return Some((
                    "independence".into(),
                    kind,
                    format!("step {i} {:?} ({}) changed {k}: {v0} -> {:?}  [attribute {attr}]", op, if ok { "ok" } else { "failed" }, v1),
                ));
            }
        }
        if ok {
            if let Some(w) = wanted(op) {
                for k in &allow {
                    if let Some(v1) = after.get(k) {
                        if *v1 != w {
                            return Some(("effect".into(), kind, format!("step {i} {:?}: {k} is {v1}, expected {w}", op)));
                        }
                    }
                }
            }
            st.shape(format!("{kind}:{}", allow.len().min(3)));
        }
    }
    None
}

fn gen_case(rng: &mut StdRng) -> Case {
    let mut cols = vec![];
    let mut next = rng.gen_range(1..4);
    for _ in 0..rng.gen_range(0..4) {
        let len = rng.gen_range(1..5);
        let k = if rng.gen_bool(0.5) { 255 } else { rng.gen_range(0..4) };
        let custom = rng.gen_bool(0.6);
        cols.push((next, next + len - 1, if custom { *crate::util::pick(rng, &[5.0, 13.5, 20.0]) } else { 10.0 }, custom, rng.gen_bool(0.3), k));
        next += len + rng.gen_range(0..3);
    }
    if rng.gen_bool(0.15) {
        cols.push((next.max(16380), 16384, 12.0, true, rng.gen_bool(0.3), 1));
    }
    let mut ops = vec![];
    let n_raw = rng.gen_range(3..14);
    let line = |rng: &mut StdRng| if rng.gen_bool(0.06) { *crate::util::pick(rng, &[16383, 16384]) } else { rng.gen_range(1..=13) };
    for _ in 0..n_raw {
        let c = line(rng);
        ops.push(match rng.gen_range(0..8) {
            0 => AOp::ColWidth(c, *crate::util::pick(rng, &[30.0, 90.0, 121.5])),
            1 => AOp::ColHidden(c, rng.gen_bool(0.6)),
            2 => AOp::ColStyle(c, rng.gen_range(0..4)),
            3 => AOp::ColStyleDelete(c),
            4 => AOp::RowHeight(c, *crate::util::pick(rng, &[10.0, 25.0, 40.5])),
            5 => AOp::RowHidden(c, rng.gen_bool(0.6)),
            6 => AOp::RowStyle(c, rng.gen_range(0..4)),
            _ => AOp::RowStyleDelete(c),
        });
    }
    for _ in 0..rng.gen_range(0..8) {
        let a = rng.gen_range(1..=12);
        let b = a + rng.gen_range(0..3);
        ops.push(match rng.gen_range(0..5) {
            0 => AOp::UColsWidth(a, b, *crate::util::pick(rng, &[30.0, 90.0, 121.5])),
            1 => AOp::UColsHidden(a, b, rng.gen_bool(0.6)),
            2 => AOp::URowsHeight(a, b, *crate::util::pick(rng, &[10.0, 25.0, 40.5])),
            3 => AOp::URowsHidden(a, b, rng.gen_bool(0.6)),
            _ => AOp::Undo,
        });
    }
    Case { cols, ops }
}

fn run(ctx: &Ctx) -> Stats {
    let n = ctx.n(40_000, 2_000_000);
    let seed = ctx.seed;
    crate::par::run_cases(n, ctx.threads, Duration::from_secs(if ctx.quick() { 90 } else { 1200 }), |i, st| {
        let mut rng = crate::util::rng_for(seed, 29, i);
        let case = gen_case(&mut rng);
        if i < 2 {
            st.sample(serde_json::to_value(&case).unwrap_or(Value::Null));
        }
        if let Some((check, key, detail)) = run_case(&case, st) {
            // shrink: drop operations from the end backwards while the same failure remains
            let mut small = case.clone();
            let mut j = small.ops.len();
            while j > 0 {
                j -= 1;
                let mut cand = small.clone();
                cand.ops.remove(j);
                let mut scratch = Stats::default();
                if matches!(run_case(&cand, &mut scratch), Some((c2, k2, _)) if c2 == check && k2 == key) {
                    small = cand;
                }
            }
            let mut scratch = Stats::default();
            let detail = run_case(&small, &mut scratch).map(|f| f.2).unwrap_or(detail);
            ctx.report(st, &check, format!("{check}|{key}|"), detail, serde_json::to_value(&small).unwrap_or(Value::Null));
        }
    })
}

fn replay(_ctx: &Ctx, case: &Value) -> Vec<Violation> {
    let Ok(c) = serde_json::from_value::<Case>(case.clone()) else { return vec![] };
    let mut st = Stats::default();
    match run_case(&c, &mut st) {
        Some((check, key, detail)) => vec![Violation { check: check.clone(), sig: format!("{check}|{key}|"), detail, case: case.clone() }],
        None => vec![],
    }
}

pub fn props() -> Vec<PropInfo> {
    vec![PropInfo {
        id: "C29",
        level: "exploration",
        rule: "random sequences of the eight Model attribute setters followed by the four UserModel range forms (with undo steps in between), starting from hand-built column descriptors that span several columns (as imported files have them); the attribute table of columns/rows 1-14, every descriptor edge +-1 and the last two lines is read before and after every call; shape key = (operation, number of targeted lines)",
        assumptions: &[
            "the 'width' of a column is its stored width (get_actual_column_width): the visible width of a hidden column is 0 by definition; likewise the stored height of a row",
            "a call that returns Err must change nothing in the table",
            "undo steps only move the history along (undo is C01's subject)",
        ],
        run,
        replay,
    }]
}
