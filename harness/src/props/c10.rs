//! C10 — display language and locale never change what formulas compute.
//! Oracle: twin models. Twin A lives in English/en throughout; twin B receives the same
//! abstract edits printed in whatever language and locale it is currently switched to, and
//! switches language and locale at random points. After every step the two must agree on
//! every value, on the language-independent form of every stored formula and on the stored
//! defined names. In B, formulas are also re-entered from their displayed text.

use super::{Ctx, PropInfo};
use crate::evid::{Stats, Violation};
use crate::fgen::{self, Dialect, F};
use crate::props::eval::{core_expr, Pool};
use crate::refeval::{engine_value, V};
use crate::util::{col_name, guarded, pick};
use ironcalc_base::expressions::parser::stringify::to_rc_format;
use ironcalc_base::types::Cell;
use ironcalc_base::Model;
use rand::Rng;
use serde::{Deserialize, Serialize};
use serde_json::{json, Value};
use std::collections::BTreeMap;
use std::time::Duration;

#[derive(Clone, Debug, Serialize, Deserialize)]
pub enum Step {
    /// (sheet, row, col, formula tree printed per dialect) — stored as English text, re-parsed into FL by replay is not possible, so both printed forms travel: (english, localized-by-dialect-name)
    Input(u32, i32, i32, BTreeMap<String, String>),
    Name(String, BTreeMap<String, String>),
    Rename(u32, String),
    InsertRows(u32, i32, i32),
    Language(String),
    Locale(String),
    Reload,
    /// re-enter the displayed text of this cell in B
    Reenter(u32, i32, i32),
}

fn dialect_key(lang: &str, locale: &str) -> String {
    format!("{lang}/{locale}")
}

fn all_prints(f: &F, prefix: &str) -> BTreeMap<String, String> {
    let mut m = BTreeMap::new();
    for l in fgen::LANGS {
        for loc in fgen::LOCALES {
            let d = Dialect::new(l, loc);
            m.insert(dialect_key(l, loc), format!("{prefix}{}", fgen::print(f, &d)));
        }
    }
    m
}

fn observe(m: &Model) -> BTreeMap<String, String> {
    let mut out = BTreeMap::new();
    for (si, ws) in m.workbook.worksheets.iter().enumerate() {
        out.insert(format!("s{si}.name"), ws.get_name());
        for (r, row) in &ws.sheet_data {
            for (c, cell) in row {
                let v = match engine_value(m, si as u32, *r, *c) {
                    Ok(V::Num(x)) => format!("n:{:.11e}", if x == 0.0 { 0.0 } else { x }),
                    Ok(V::Empty) => continue,
                    Ok(v) => format!("{:?}", v),
                    Err(_) => "unevaluated".into(),
                };
                out.insert(format!("s{si}!R{r}C{c}.value"), v);
                if let Cell::CellFormula { f, .. } | Cell::ArrayFormula { f, .. } = cell {
                    if let Some(node) = m.parsed_formulas.get(si).and_then(|v| v.get(*f as usize)) {
                        out.insert(format!("s{si}!R{r}C{c}.formula"), to_rc_format(&node.0));
                    }
                    if let Some(text) = ws.shared_formulas.get(*f as usize) {
                        out.insert(format!("s{si}!R{r}C{c}.stored"), text.clone());
                    }
                }
            }
        }
    }
    for dn in &m.workbook.defined_names {
        out.insert(format!("name.{}.{:?}", dn.name.to_lowercase(), dn.sheet_id), dn.formula.clone());
    }
    out
}

struct Twin {
    m: Model<'static>,
    lang: String,
    locale: String,
}

fn apply(t: &mut Twin, step: &Step, is_b: bool) -> Result<(), String> {
    let key = dialect_key(&t.lang, &t.locale);
    match step {
        Step::Input(s, r, c, texts) => t.m.set_user_input(*s, *r, *c, texts.get(&key).cloned().unwrap_or_default()),
        Step::Name(name, texts) => t.m.new_defined_name(name, None, texts.get(&key).map(|s| s.as_str()).unwrap_or("")),
        Step::Rename(s, name) => t.m.rename_sheet_by_index(*s, name),
        Step::InsertRows(s, r, n) => t.m.insert_rows(*s, *r, *n),
        Step::Language(l) => {
            if is_b {
                t.lang = l.clone();
                t.m.set_language(l)?;
            }
            Ok(())
        }
        Step::Locale(l) => {
            if is_b {
                t.locale = l.clone();
                t.m.set_locale(l)?;
            }
            Ok(())
        }
        Step::Reload => {
            let lang: &'static str = fgen::LANGS.iter().find(|x| **x == t.lang).copied().unwrap_or("en");
            t.m = Model::from_bytes(&t.m.to_bytes(), lang)?;
            Ok(())
        }
        Step::Reenter(s, r, c) => {
            if is_b {
                if let Ok(Some(text)) = t.m.get_cell_formula(*s, *r, *c) {
                    t.m.set_user_input(*s, *r, *c, text)?;
                }
            }
            Ok(())
        }
    }
}

/// first disagreement: (step index, step kind, fact category, detail)
fn run_steps(steps: &[Step], st: &mut Stats) -> Option<(usize, String, String, String)> {
    let mk = || -> Option<Twin> {
        let mut m = Model::new_empty("wb", "en", "UTC", "en").ok()?;
        m.new_sheet();
        Some(Twin { m, lang: "en".into(), locale: "en".into() })
    };
    let (mut a, mut b) = (mk()?, mk()?);
    for (i, step) in steps.iter().enumerate() {
        let ra = guarded(|| apply(&mut a, step, false));
        let rb = guarded(|| apply(&mut b, step, true));
        let kind = format!("{:?}", step).split('(').next().unwrap_or("?").to_string();
        match (&ra, &rb) {
            (Ok(x), Ok(y)) if x.is_ok() != y.is_ok() => {
                return Some((i, kind, "accepted".into(), format!("step {step:?}: the English twin returned {x:?}, the twin in {}/{} returned {y:?}", b.lang, b.locale)));
            }
            (Err(_), _) | (_, Err(_)) => {
                st.count("step_panicked_left_to_C11");
                return None;
            }
            _ => {}
        }
        a.m.evaluate();
        b.m.evaluate();
        st.evaluations += 1;
        st.set_add("dialects_observed", dialect_key(&b.lang, &b.locale));
        let (oa, ob) = (observe(&a.m), observe(&b.m));
        if oa != ob {
            let keys: std::collections::BTreeSet<&String> = oa.keys().chain(ob.keys()).collect();
            let diffs: Vec<&String> = keys.into_iter().filter(|k| oa.get(*k) != ob.get(*k)).collect();
            let cat = diffs.first().map(|k| k.rsplit('.').next().unwrap_or("?").to_string()).unwrap_or_default();
            let cat = if cat.starts_with("Some") || cat == "None" { "name".to_string() } else { cat };
            let d: Vec<String> = diffs.iter().take(3).map(|k| format!("{k}: English twin {:?}, twin in {}/{} {:?}", oa.get(*k), b.lang, b.locale, ob.get(*k))).collect();
            return Some((i, kind, cat, d.join("; ")));
        }
    }
    None
}

fn gen_steps(rng: &mut rand::rngs::StdRng) -> Vec<Step> {
    let mut steps = vec![];
    let n = rng.gen_range(5..18);
    let mut names = 0;
    for _ in 0..n {
        let s = rng.gen_range(0..2u32);
        let (r, c) = (rng.gen_range(1..=6), rng.gen_range(1..=5));
        let step = match rng.gen_range(0..20) {
            0..=7 => {
                let mut pool = Pool { cells: vec![], ranges: vec![] };
                for _ in 0..5 {
                    let (r2, c2) = (rng.gen_range(1..=6), rng.gen_range(1..=5));
                    let p = if rng.gen_bool(0.25) { "Sheet2!" } else { "" };
                    pool.cells.push(format!("{p}{}{}", col_name(c2), r2));
                }
                pool.ranges.push(format!("{}{}:{}{}", col_name(1), rng.gen_range(1..=3), col_name(rng.gen_range(2..=5)), rng.gen_range(4..=6)));
                if names > 0 && rng.gen_bool(0.3) {
                    pool.cells.push("myname1".into());
                }
                let depth = rng.gen_range(1..=3);
                let mut f = core_expr(rng, depth, &pool);
                // text built from numbers and coerced back to a number is read with the
                // locale's separators and date order (a result that is defined to depend on the
                // locale); x+(y+z) is re-associated by a reload (C09): neither is generated
                for _ in 0..20 {
                    let t = fgen::print(&f, &Dialect::new("en", "en"));
                    if !(t.contains('&') || t.contains("CONCAT") || t.contains("+(")) {
                        break;
                    }
                    f = core_expr(rng, depth.min(2), &pool);
                }
                let t = fgen::print(&f, &Dialect::new("en", "en"));
                if t.contains('&') || t.contains("CONCAT") || t.contains("+(") {
                    f = F::Num("5".into());
                }
                Step::Input(s, r, c, all_prints(&f, "="))
            }
            8..=10 => {
                let f = match rng.gen_range(0..4) {
                    0 => F::Num((*pick(rng, &["2.5", "1000000", "0.125", "-7.5"])).to_string()),
                    1 => F::Bool(rng.gen_bool(0.5)),
                    2 => F::Err(rng.gen_range(0..fgen::ERRORS.len())),
                    _ => F::Num("12".into()),
                };
                // a typed boolean constant is read in English only (re-entering displayed
                // booleans is C18's subject); numbers and error literals are typed localised
                let mut texts = all_prints(&f, "");
                if let F::Bool(b) = f {
                    for v in texts.values_mut() {
                        *v = if b { "TRUE".into() } else { "FALSE".into() };
                    }
                }
                Step::Input(s, r, c, texts)
            }
            11 => {
                names += 1;
                // the engine accepts a single reference or range as the formula of a name
                let f = F::Ref((*pick(rng, &["Sheet1!$A$1", "Sheet2!$B$2", "Sheet1!$A$1:$B$3"])).to_string());
                Step::Name(format!("myname{names}"), all_prints(&f, ""))
            }
            12 => Step::Rename(s, (*pick(rng, &["Data", "My Sheet", "Hoja 1", "Été", "WAHR", "Sum"])).to_string() + &format!("{}", rng.gen_range(0..3))),
            13 => Step::InsertRows(s, rng.gen_range(1..=5), rng.gen_range(1..=2)),
            14..=15 => Step::Language((*pick(rng, fgen::LANGS)).to_string()),
            16..=17 => Step::Locale((*pick(rng, fgen::LOCALES)).to_string()),
            18 => Step::Reload,
            _ => Step::Reenter(s, r, c),
        };
        steps.push(step);
    }
    steps
}

fn run(ctx: &Ctx) -> Stats {
    let n = ctx.n(6_000, 500_000);
    let seed = ctx.seed;
    crate::par::run_cases(n, ctx.threads, Duration::from_secs(if ctx.quick() { 80 } else { 1500 }), |i, st| {
        let mut rng = crate::util::rng_for(seed, 10, i);
        let steps = gen_steps(&mut rng);
        st.shape(format!("{}", steps.len() / 3));
        if i < 2 {
            st.sample(json!({"steps": steps.iter().take(3).map(|s| format!("{:?}", s).chars().take(200).collect::<String>()).collect::<Vec<_>>()}));
        }
        if let Some((at, kind, cat, _)) = run_steps(&steps, st) {
            let mut small: Vec<Step> = steps[..=at].to_vec();
            let mut j = small.len();
            while j > 0 {
                j -= 1;
                let mut cand = small.clone();
                cand.remove(j);
                let mut scratch = Stats::default();
                if matches!(run_steps(&cand, &mut scratch), Some((_, k2, c2, _)) if k2 == kind && c2 == cat) {
                    small = cand;
                }
            }
            let mut scratch = Stats::default();
            if let Some((_, kind, cat, detail)) = run_steps(&small, &mut scratch) {
                // keep only the two dialects a replay needs readable
                ctx.report(st, "twin-differs", format!("twin-differs|{kind}|{cat}"), detail, json!({"steps": small}));
            }
        }
    })
}

fn replay(_ctx: &Ctx, case: &Value) -> Vec<Violation> {
    let Ok(steps) = serde_json::from_value::<Vec<Step>>(case.get("steps").cloned().unwrap_or(Value::Null)) else { return vec![] };
    let mut st = Stats::default();
    match run_steps(&steps, &mut st) {
        Some((_, kind, cat, detail)) => vec![Violation { check: "twin-differs".into(), sig: format!("twin-differs|{kind}|{cat}"), detail, case: case.clone() }],
        None => vec![],
    }
}

pub fn props() -> Vec<PropInfo> {
    vec![PropInfo {
        id: "C10",
        level: "exploration",
        rule: "twin models: A stays in English/en; B receives the same abstract edits (core-language formulas, numbers, booleans and error literals, defined names, sheet renames, row insertions, to_bytes/from_bytes) printed by the harness's own printer in the language and locale B is currently switched to, switches among 5 languages and 6 locales at random points and re-enters formulas from their displayed text; after every step A and B must agree on every value (numbers to 12 digits), on the R1C1 form of every parsed formula, on every stored formula text, on the defined names and on whether the step was accepted; shape key = history length class",
        assumptions: &["the generated language has no function whose result is defined to depend on the locale (TEXT, VALUE, date parsing ...): values must not change at all", "printing per language/locale is done by the harness's FL printer (operands parenthesised)"],
        run,
        replay,
    }]
}
