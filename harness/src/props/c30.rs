//! C30 — styles are stored and read back faithfully (and never alias).
//! Oracle: the harness's own map target -> Style, re-read in full after every assignment.

use super::{Ctx, PropInfo};
use crate::evid::{Stats, Violation};
use crate::util::guarded;
use ironcalc_base::types::*;
use ironcalc_base::Model;
use rand::rngs::StdRng;
use rand::Rng;
use serde::{Deserialize, Serialize};
use serde_json::{json, Value};
use std::collections::BTreeMap;
use std::time::Duration;

const BUILTIN_FORMATS: &[&str] = &[
    "general", "0", "0.00", "#,##0", "#,##0.00", "0%", "0.00%", "0.00E+00", "# ?/?", "mm-dd-yy", "d-mmm-yy", "h:mm AM/PM", "h:mm:ss",
    "m/d/yy h:mm", "#,##0 ;(#,##0)", "#,##0.00;[Red](#,##0.00)", "mm:ss", "[h]:mm:ss", "##0.0E+0", "@",
];

fn color(rng: &mut StdRng) -> Color {
    match rng.gen_range(0..5) {
        0 => Color::None,
        1 => Color::Rgb("#FF0000".into()),
        2 => Color::Rgb("#00FF7F".into()),
        3 => Color::Theme(rng.gen_range(0..10), *crate::util::pick(rng, &[0.0, 0.4, -0.25])),
        _ => Color::Rgb("#123456".into()),
    }
}

fn border_item(rng: &mut StdRng) -> Option<BorderItem> {
    if rng.gen_bool(0.6) {
        return None;
    }
    let style = match rng.gen_range(0..5) {
        0 => BorderStyle::Thin,
        1 => BorderStyle::Medium,
        2 => BorderStyle::Thick,
        3 => BorderStyle::Double,
        _ => BorderStyle::Dotted,
    };
    Some(BorderItem { style, color: color(rng) })
}

pub fn random_style(rng: &mut StdRng) -> Style {
    let mut s = Style::default();
    if rng.gen_bool(0.4) {
        s.font.b = rng.gen_bool(0.5);
        s.font.i = rng.gen_bool(0.5);
        s.font.u = rng.gen_bool(0.3);
        s.font.strike = rng.gen_bool(0.2);
        s.font.sz = *crate::util::pick(rng, &[8, 11, 12, 13, 20]);
        s.font.color = color(rng);
        if rng.gen_bool(0.2) {
            s.font.name = "Courier".into();
            s.font.family = 3;
            s.font.scheme = FontScheme::None;
        }
    }
    if rng.gen_bool(0.3) {
        s.fill.color = color(rng);
    }
    if rng.gen_bool(0.3) {
        s.border.left = border_item(rng);
        s.border.right = border_item(rng);
        s.border.top = border_item(rng);
        s.border.bottom = border_item(rng);
        if rng.gen_bool(0.2) {
            s.border.diagonal = border_item(rng);
            s.border.diagonal_up = rng.gen_bool(0.5);
            s.border.diagonal_down = rng.gen_bool(0.5);
        }
    }
    if rng.gen_bool(0.3) {
        s.alignment = Some(Alignment {
            horizontal: match rng.gen_range(0..5) {
                0 => HorizontalAlignment::Center,
                1 => HorizontalAlignment::Left,
                2 => HorizontalAlignment::Right,
                3 => HorizontalAlignment::Justify,
                _ => HorizontalAlignment::General,
            },
            vertical: match rng.gen_range(0..4) {
                0 => VerticalAlignment::Center,
                1 => VerticalAlignment::Top,
                2 => VerticalAlignment::Justify,
                _ => VerticalAlignment::Bottom,
            },
            wrap_text: rng.gen_bool(0.4),
        });
    }
    if rng.gen_bool(0.5) {
        let base = *crate::util::pick(rng, BUILTIN_FORMATS);
        s.num_fmt = match rng.gen_range(0..6) {
            // the same code in another letter case is a different code (e/E, am/pm, General)
            4 => base.to_ascii_lowercase(),
            5 => base.to_ascii_uppercase(),
            0 => base.to_string(),                 // a custom format equal to a built-in one
            1 => format!("{base} "),               // one character away
            2 => base.replacen('0', "00", 1),      // one character away
            _ => "\"x\"0.0".to_string(),
        };
    }
    if rng.gen_bool(0.1) {
        s.quote_prefix = true;
    }
    s
}

#[derive(Clone, Debug, Serialize, Deserialize)]
pub enum SOp {
    Cell(i32, i32, Style),
    Row(i32, Style),
    Col(i32, Style),
    /// create a named style from a style and apply it by name to a cell
    Named(String, Style, i32, i32),
    /// change a named style afterwards (cells linked to it follow; others must not)
    UpdateNamed(String, Style),
}

fn run_case(ops: &[SOp], st: &mut Stats) -> Option<(String, String, String)> {
    let mut m = Model::new_empty("s", "en", "UTC", "en").ok()?;
    // expected styles; a cell assignment overrides row/column styles, rows override columns for absent cells
    let mut cells: BTreeMap<(i32, i32), Style> = BTreeMap::new();
    let mut rows: BTreeMap<i32, Style> = BTreeMap::new();
    let mut cols: BTreeMap<i32, Style> = BTreeMap::new();
    let mut named: BTreeMap<String, Vec<(i32, i32)>> = BTreeMap::new();
    for (i, op) in ops.iter().enumerate() {
        st.evaluations += 1;
        let kind = format!("{:?}", op).split('(').next().unwrap_or("?").to_string();
        let r = guarded(|| -> Result<(), String> {
            match op {
                SOp::Cell(r, c, s) => m.set_cell_style(0, *r, *c, s),
                SOp::Row(r, s) => m.set_row_style(0, *r, s),
                SOp::Col(c, s) => m.set_column_style(0, *c, s),
                SOp::Named(n, s, r, c) => {
                    if m.get_named_style(n).is_err() {
                        m.create_named_style(n, s, StyleIncludes::default())?;
                    }
                    m.set_cell_style_by_name(0, *r, *c, n)
                }
                SOp::UpdateNamed(n, s) => {
                    if m.get_named_style(n).is_ok() {
                        m.update_named_style(n, n, s, StyleIncludes::default())
                    } else {
                        Ok(())
                    }
                }
            }
        });
        match r {
            Err(p) => return Some(("panic".into(), kind.clone(), format!("step {i} {:?} panicked: {p}", kind))),
            Ok(Err(e)) => {
                st.count("assignment_refused");
                st.notes.push(format!("{kind} refused: {e}"));
                continue;
            }
            Ok(Ok(())) => {}
        }
        match op {
            SOp::Cell(r, c, s) => {
                cells.insert((*r, *c), s.clone());
                for v in named.values_mut() {
                    v.retain(|p| p != &(*r, *c));
                }
            }
            SOp::Row(r, s) => {
                rows.insert(*r, s.clone());
                // setting a row style restyles the existing cells of that row
                let keys: Vec<(i32, i32)> = cells.keys().filter(|k| k.0 == *r).cloned().collect();
                for k in keys {
                    cells.remove(&k);
                }
            }
            SOp::Col(c, s) => {
                cols.insert(*c, s.clone());
                let keys: Vec<(i32, i32)> = cells.keys().filter(|k| k.1 == *c).cloned().collect();
                for k in keys {
                    cells.remove(&k);
                }
            }
            SOp::Named(n, _, r, c) => {
                let mut s = m.get_named_style(n).ok()?;
                // the quote prefix belongs to the cell, not to the named style: it is kept
                s.quote_prefix = cells
                    .get(&(*r, *c))
                    .or_else(|| rows.get(r))
                    .or_else(|| cols.get(c))
                    .map(|x| x.quote_prefix)
                    .unwrap_or(false);
                cells.insert((*r, *c), s);
                for v in named.values_mut() {
                    v.retain(|p| p != &(*r, *c));
                }
                named.entry(n.clone()).or_default().push((*r, *c));
            }
            SOp::UpdateNamed(n, s) => {
                if let Some(list) = named.get(n) {
                    for p in list {
                        let keep = cells.get(p).map(|x| x.quote_prefix).unwrap_or(false);
                        cells.insert(*p, Style { quote_prefix: keep, ..s.clone() });
                    }
                }
            }
        }
        // read everything back
        for ((r, c), want) in &cells {
            match m.get_style_for_cell(0, *r, *c) {
                Ok(got) if &got == want => {}
                other => {
                    let late = !matches!(op, SOp::Cell(r2, c2, _) | SOp::Named(_, _, r2, c2) if (r2, c2) == (r, c));
                    return Some((
                        if late { "aliasing".into() } else { "read-back".into() },
                        kind.clone(),
                        format!("step {i}: after {kind}, cell R{r}C{c} reads {:?}, expected {:?}", other, want),
                    ));
                }
            }
        }
        for (r, want) in &rows {
            match m.get_row_style(0, *r) {
                Ok(Some(got)) if &got == want => {}
                other => return Some(("row-read-back".into(), kind, format!("step {i}: row {r} reads {:?}, expected {:?}", other, want))),
            }
        }
        for (c, want) in &cols {
            match m.get_column_style(0, *c) {
                Ok(Some(got)) if &got == want => {}
                other => return Some(("col-read-back".into(), kind, format!("step {i}: column {c} reads {:?}, expected {:?}", other, want))),
            }
        }
        st.shape(format!("{kind}:{}", cells.len().min(12)));
    }
    None
}

fn gen_case(rng: &mut StdRng) -> Vec<SOp> {
    let n = rng.gen_range(5..40);
    let pool: Vec<Style> = (0..6).map(|_| random_style(rng)).collect();
    let with_named = rng.gen_bool(0.5);
    (0..n)
        .map(|_| {
            // styles are drawn from a small pool and from fresh ones, so equal styles meet
            let s = if rng.gen_bool(0.5) { pool[rng.gen_range(0..pool.len())].clone() } else { random_style(rng) };
            let (r, c) = (rng.gen_range(1..=6), rng.gen_range(1..=5));
            let mut k = rng.gen_range(0..12);
            // Named styles do not carry a quote prefix and what happens to a cell's prefix when
            // a named style is applied is not part of the statement: histories either use named
            // styles (and no quote prefixes at all) or quote prefixes (and no named styles).
            let s = if with_named { Style { quote_prefix: false, ..s } } else { s };
            if !with_named && (k == 2 || k == 3) {
                k = 5;
            }
            match k {
                0 => SOp::Row(r, s),
                1 => SOp::Col(c, s),
                2 => SOp::Named((*crate::util::pick(rng, &["Mine", "Hot"])).to_string(), s, r, c),
                3 => SOp::UpdateNamed((*crate::util::pick(rng, &["Mine", "Hot"])).to_string(), s),
                _ => SOp::Cell(r, c, s),
            }
        })
        .collect()
}

fn run(ctx: &Ctx) -> Stats {
    let n = ctx.n(6000, 300_000);
    let seed = ctx.seed;
    crate::par::run_cases(n, ctx.threads, Duration::from_secs(if ctx.quick() { 90 } else { 1200 }), |i, st| {
        let mut rng = crate::util::rng_for(seed, 30, i);
        let ops = gen_case(&mut rng);
        if i < 1 {
            st.sample(json!({"ops": ops.iter().take(3).collect::<Vec<_>>(), "total": ops.len()}));
        }
        if let Some((check, key, detail)) = run_case(&ops, st) {
            let mut small = ops.clone();
            let mut j = small.len();
            while j > 0 {
                j -= 1;
                let mut cand = small.clone();
                cand.remove(j);
                let mut scratch = Stats::default();
                if matches!(run_case(&cand, &mut scratch), Some((c2, k2, _)) if c2 == check && k2 == key) {
                    small = cand;
                }
            }
            let mut scratch = Stats::default();
            let detail = run_case(&small, &mut scratch).map(|f| f.2).unwrap_or(detail);
            ctx.report(st, &check, format!("{check}|{key}|"), detail.chars().take(900).collect(), json!({"ops": small}));
        }
    })
}

fn replay(_ctx: &Ctx, case: &Value) -> Vec<Violation> {
    let Ok(ops) = serde_json::from_value::<Vec<SOp>>(case.get("ops").cloned().unwrap_or(Value::Null)) else { return vec![] };
    let mut st = Stats::default();
    match run_case(&ops, &mut st) {
        Some((check, key, detail)) => vec![Violation { check: check.clone(), sig: format!("{check}|{key}|"), detail, case: case.clone() }],
        None => vec![],
    }
}

pub fn props() -> Vec<PropInfo> {
    vec![PropInfo {
        id: "C30",
        level: "exploration",
        rule: "random sequences of style assignments to cells, rows and columns (styles over every font/fill/border/alignment field, theme/RGB/no colour, custom number formats equal to and one character away from built-in ones, quote prefix; half drawn from a pool of six so that equal styles meet), interleaved with named-style creation/application/update; after every assignment every earlier target is read back; shape key = (operation, number of styled cells)",
        assumptions: &[
            "setting a row (column) style restyles the existing cells of that row (column): those cells are dropped from the expectation",
            "a cell linked to a named style follows updates of that named style; a cell styled directly does not",
        ],
        run,
        replay,
    }]
}
