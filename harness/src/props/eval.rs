//! C05 / C06 — evaluation monitors built on the reference evaluator RE (refeval.rs).
//!
//! C06: workbooks in the core formula language, acyclic by construction; every computed
//!      value is compared with the value RE assigns, evaluating recursively in RE's own order.
//! C05: edit histories over the same language, cycles allowed; after every step each formula
//!      cell is re-computed by RE from the *current values of the cells it reads* and must
//!      show that value; the #CIRC! clauses are judged on the static reference graph.

use super::{Ctx, PropInfo};
use crate::evid::{Stats, Violation};
use crate::fgen::{self, Dialect, F};
use crate::nodeutil;
use crate::ops::{self, GenCfg, Op};
use crate::refeval::{self, engine_value, formula_node, Env, Unsupported, V};
use crate::util::{col_name, guarded, pick};
use ironcalc_base::types::Cell;
use ironcalc_base::Model;
use rand::rngs::StdRng;
use rand::seq::SliceRandom;
use rand::Rng;
use serde_json::{json, Value};
use std::collections::{BTreeMap, BTreeSet, HashMap};
use std::time::Duration;

pub const ROWS: i32 = 6;
pub const COLS: i32 = 5;

const NUMS: &[&str] = &["0", "1", "2", "3", "-1", "2.5", "0.25", "10", "100", "-7.5", "1000000", "0.125", "12"];
const STRS: &[&str] = &["abc", "ABC", "b", "", "x y", "3", "TRUE", "abd"];

/// what a generated formula may refer to
pub struct Pool {
    pub cells: Vec<String>,
    pub ranges: Vec<String>,
}

fn leaf(rng: &mut StdRng, pool: &Pool) -> F {
    match rng.gen_range(0..12) {
        0..=2 => F::Num((*pick(rng, NUMS)).to_string()),
        3 => F::Str((*pick(rng, STRS)).to_string()),
        4 => F::Bool(rng.gen_bool(0.5)),
        5 => F::Err(rng.gen_range(0..fgen::ERRORS.len())),
        _ => {
            if pool.cells.is_empty() {
                F::Num("4".into())
            } else {
                F::Ref(pick(rng, &pool.cells).clone())
            }
        }
    }
}

fn agg_arg(rng: &mut StdRng, depth: u32, pool: &Pool) -> F {
    if !pool.ranges.is_empty() && rng.gen_bool(0.55) {
        F::Ref(pick(rng, &pool.ranges).clone())
    } else {
        core_expr(rng, depth, pool)
    }
}

pub fn core_expr(rng: &mut StdRng, depth: u32, pool: &Pool) -> F {
    if depth == 0 || rng.gen_bool(0.2) {
        return leaf(rng, pool);
    }
    let d = depth - 1;
    let sub = |rng: &mut StdRng| Box::new(core_expr(rng, d, pool));
    match rng.gen_range(0..30) {
        0..=11 => {
            let op = fgen::BINOPS[rng.gen_range(0..fgen::BINOPS.len())];
            F::Bin(op, sub(rng), sub(rng))
        }
        12 => F::Neg(sub(rng)),
        13 => F::Pct(sub(rng)),
        14 => {
            let n = rng.gen_range(2..=3);
            F::Call("If", (0..n).map(|_| core_expr(rng, d, pool)).collect())
        }
        15 => F::Call(if rng.gen_bool(0.5) { "And" } else { "Or" }, (0..rng.gen_range(1..=3)).map(|_| agg_arg(rng, d, pool)).collect()),
        16 => F::Call("Not", vec![core_expr(rng, d, pool)]),
        17..=21 => {
            let f = *pick(rng, &["Sum", "Min", "Max", "Count", "Counta", "Average"]);
            F::Call(f, (0..rng.gen_range(1..=3)).map(|_| agg_arg(rng, d, pool)).collect())
        }
        22 => F::Call("Abs", vec![core_expr(rng, d, pool)]),
        23 => {
            let digits = if rng.gen_bool(0.8) { F::Num((*pick(rng, &["0", "1", "2", "-1", "3"])).to_string()) } else { core_expr(rng, d, pool) };
            F::Call("Round", vec![core_expr(rng, d, pool), digits])
        }
        24 => F::Call("Len", vec![core_expr(rng, d, pool)]),
        25 => F::Call("Concat", (0..rng.gen_range(1..=3)).map(|_| agg_arg(rng, d, pool)).collect()),
        26 => F::Call(*pick(rng, &["Isnumber", "Istext"]), vec![core_expr(rng, d, pool)]),
        27 => F::Call("Isblank", vec![leaf(rng, pool)]),
        _ => F::Call("Iferror", vec![core_expr(rng, d, pool), core_expr(rng, d, pool)]),
    }
}

pub fn constant(rng: &mut StdRng) -> String {
    match rng.gen_range(0..10) {
        0..=4 => (*pick(rng, NUMS)).to_string(),
        5 => (*pick(rng, &["abc", "ABC", "b", "x y", "abd"])).to_string(),
        6 => (*pick(rng, &["'3", "'TRUE", "'2.5", "'"])).to_string(),
        7 => (*pick(rng, &["TRUE", "FALSE"])).to_string(),
        _ => (*pick(rng, &["#N/A", "#DIV/0!", "#VALUE!", "#REF!", "#NAME?", "#NUM!", "#NULL!"])).to_string(),
    }
}

fn a1(sheet_prefix: &str, r: i32, c: i32, rng: &mut StdRng) -> String {
    let dc = if rng.gen_bool(0.2) { "$" } else { "" };
    let dr = if rng.gen_bool(0.2) { "$" } else { "" };
    format!("{sheet_prefix}{dc}{}{dr}{r}", col_name(c))
}

pub type Cells = Vec<(u32, i32, i32, String)>;

fn sheet_prefix(target: u32, own: u32) -> String {
    if target == own {
        String::new()
    } else {
        format!("Sheet{}!", target + 1)
    }
}

/// An acyclic workbook: a formula only reads cells of lower rank in a random order.
pub fn gen_acyclic(rng: &mut StdRng, nsheets: u32) -> Cells {
    let en = Dialect::new("en", "en");
    let mut all: Vec<(u32, i32, i32)> = vec![];
    for s in 0..nsheets {
        for r in 1..=ROWS {
            for c in 1..=COLS {
                all.push((s, r, c));
            }
        }
    }
    all.shuffle(rng);
    let rank: HashMap<(u32, i32, i32), usize> = all.iter().enumerate().map(|(i, k)| (*k, i)).collect();
    let mut out = vec![];
    for (i, &(s, r, c)) in all.iter().enumerate() {
        match rng.gen_range(0..100) {
            0..=24 => {}
            25..=54 => out.push((s, r, c, constant(rng))),
            _ => {
                let mut pool = Pool { cells: vec![], ranges: vec![] };
                for _ in 0..6 {
                    if i == 0 {
                        break;
                    }
                    let &(s2, r2, c2) = &all[rng.gen_range(0..i)];
                    pool.cells.push(a1(&sheet_prefix(s2, s), r2, c2, rng));
                }
                for _ in 0..12 {
                    let s2 = rng.gen_range(0..nsheets);
                    let (r1, c1) = (rng.gen_range(1..=ROWS), rng.gen_range(1..=COLS));
                    let (r2, c2) = (rng.gen_range(r1..=(r1 + 2).min(ROWS)), rng.gen_range(c1..=(c1 + 2).min(COLS)));
                    let ok = (r1..=r2).all(|rr| (c1..=c2).all(|cc| rank[&(s2, rr, cc)] < i));
                    if ok {
                        let p = sheet_prefix(s2, s);
                        pool.ranges.push(format!("{}:{}", a1(&p, r1, c1, rng), a1("", r2, c2, rng)));
                    }
                }
                // whole columns and rows, when everything in them has a lower rank
                for _ in 0..(if rng.gen_bool(0.3) { 1 } else { 0 }) {
                    let s2 = rng.gen_range(0..nsheets);
                    let p = sheet_prefix(s2, s);
                    if rng.gen_bool(0.5) {
                        let c1 = rng.gen_range(1..=COLS);
                        if (1..=ROWS).all(|rr| rank[&(s2, rr, c1)] < i) {
                            pool.ranges.push(format!("{p}{}:{}", col_name(c1), col_name(c1)));
                        }
                    } else {
                        let r1 = rng.gen_range(1..=ROWS);
                        if (1..=COLS).all(|cc| rank[&(s2, r1, cc)] < i) {
                            pool.ranges.push(format!("{p}{r1}:{r1}"));
                        }
                    }
                }
                let depth = rng.gen_range(1..=3);
                let f = core_expr(rng, depth, &pool);
                out.push((s, r, c, format!("={}", fgen::print(&f, &en))));
            }
        }
    }
    out.shuffle(rng);
    out
}

fn build_model(nsheets: u32, cells: &Cells) -> Result<Model<'static>, String> {
    let mut m = Model::new_empty("wb", "en", "UTC", "en")?;
    for _ in 1..nsheets {
        m.new_sheet();
    }
    for (s, r, c, t) in cells {
        m.set_user_input(*s, *r, *c, t.clone())?;
    }
    m.evaluate();
    Ok(m)
}

pub fn kind(v: &V) -> String {
    match v {
        V::Num(_) => "num".into(),
        V::Str(_) => "str".into(),
        V::Bool(_) => "bool".into(),
        V::Err(e) => e.clone(),
        V::Empty => "empty".into(),
    }
}

/// RE evaluating the whole workbook recursively, in its own order.
struct Global<'m> {
    m: &'m Model<'m>,
    memo: HashMap<(u32, i32, i32), Result<V, Unsupported>>,
    stack: BTreeSet<(u32, i32, i32)>,
}

impl<'m> Env for Global<'m> {
    fn cell(&mut self, s: u32, r: i32, c: i32) -> Result<V, Unsupported> {
        if let Some(v) = self.memo.get(&(s, r, c)) {
            return v.clone();
        }
        let ws = self.m.workbook.worksheets.get(s as usize);
        let raw = ws.and_then(|w| w.sheet_data.get(&r)).and_then(|row| row.get(&c));
        let out = match raw {
            Some(Cell::ArrayFormula { .. }) | Some(Cell::SpillCell { .. }) => Err(Unsupported("array formula".into())),
            Some(Cell::CellFormula { .. }) => {
                if !self.stack.insert((s, r, c)) {
                    return Err(Unsupported("cycle".into()));
                }
                let m = self.m;
                let res = match formula_node(m, s, r, c) {
                    Some(node) => refeval::eval_at(self, s, r, c).cell_result(node),
                    None => Err(Unsupported("no stored tree".into())),
                };
                self.stack.remove(&(s, r, c));
                res
            }
            _ => engine_value(self.m, s, r, c),
        };
        self.memo.insert((s, r, c), out.clone());
        out
    }
    fn populated(&mut self, s: u32, r1: i32, c1: i32, r2: i32, c2: i32) -> Result<Vec<(i32, i32)>, Unsupported> {
        refeval::populated_in(self.m, s, r1, c1, r2, c2)
    }
}

/// RE reading the values the engine currently holds.
struct Local<'m> {
    m: &'m Model<'m>,
}

impl<'m> Env for Local<'m> {
    fn cell(&mut self, s: u32, r: i32, c: i32) -> Result<V, Unsupported> {
        engine_value(self.m, s, r, c)
    }
    fn populated(&mut self, s: u32, r1: i32, c1: i32, r2: i32, c2: i32) -> Result<Vec<(i32, i32)>, Unsupported> {
        refeval::populated_in(self.m, s, r1, c1, r2, c2)
    }
}

fn formula_cells(m: &Model) -> Vec<(u32, i32, i32)> {
    let mut v = vec![];
    for (si, ws) in m.workbook.worksheets.iter().enumerate() {
        for (r, row) in &ws.sheet_data {
            for (c, cell) in row {
                if matches!(cell, Cell::CellFormula { .. }) {
                    v.push((si as u32, *r, *c));
                }
            }
        }
    }
    v.sort();
    v
}

struct Mismatch {
    cell: (u32, i32, i32),
    check: &'static str,
    key: String,
    cats: String,
    detail: String,
}

fn cell_name(s: u32, r: i32, c: i32) -> String {
    format!("Sheet{}!{}{}", s + 1, col_name(c), r)
}

fn check_c06(m: &Model, st: &mut Stats) -> Vec<Mismatch> {
    let mut roots = vec![];
    let mut downstream = vec![];
    let mut tagged = vec![];
    let mut g = Global { m, memo: HashMap::new(), stack: BTreeSet::new() };
    let mut local = Local { m };
    for (s, r, c) in formula_cells(m) {
        let Some(node) = formula_node(m, s, r, c) else { continue };
        if nodeutil::contains_parse_error(node) {
            st.count("parse_error_formulas");
            continue;
        }
        let expected = g.cell(s, r, c);
        let got = engine_value(m, s, r, c);
        match (expected, got) {
            (Ok(e), Ok(v)) => {
                st.evaluations += 1;
                st.set_add("result_kinds", kind(&e));
                st.shape(format!("{}→{}", nodeutil::skeleton(node, 2), kind(&e)));
                if !refeval::same(&e, &v) {
                    // a root cause disagrees even over the values the engine itself shows for its inputs
                    let mut ev = refeval::eval_at(&mut local, s, r, c);
                    let loc = ev.cell_result(node);
                    let tag = ev.tags.iter().next().cloned();
                    let root = matches!(&loc, Ok(l) if !refeval::same(l, &v));
                    let e = if root { loc.unwrap_or(e) } else { e };
                    let mm = Mismatch {
                        cell: (s, r, c),
                        check: if root { "reference-value" } else { "reference-value-downstream" },
                        key: tag.unwrap_or("-").to_string(),
                        cats: format!("{}/{}", kind(&e), kind(&v)),
                        detail: format!("{} {}: engine shows {:?}, reference evaluator gives {:?} [{}]", cell_name(s, r, c), m.get_cell_formula(s, r, c).ok().flatten().unwrap_or_default(), v, e, nodeutil::skeleton(node, 3)),
                    };
                    if root && tag.is_none() {
                        roots.push(mm)
                    } else if root {
                        tagged.push(mm)
                    } else {
                        downstream.push(mm)
                    }
                }
            }
            (Err(u), _) | (_, Err(u)) => {
                st.count("no_opinion");
                st.set_add("no_opinion_reasons", u.0);
            }
        }
    }
    roots.extend(tagged);
    // A disagreement that is not reproduced over the engine's own input values can only come
    // from an upstream difference below the numeric tolerance that a later text conversion
    // makes visible: counted, never a verdict.
    if roots.is_empty() && !downstream.is_empty() {
        st.inconclusive += 1;
        st.count("downstream_only_disagreements_below_tolerance");
    }
    roots
}

fn first_c06(nsheets: u32, cells: &Cells, st: &mut Stats) -> Option<Mismatch> {
    let m = match guarded(|| build_model(nsheets, cells)) {
        Ok(Ok(m)) => m,
        _ => {
            st.count("build_failed");
            return None;
        }
    };
    check_c06(&m, st).into_iter().next()
}

fn literal_input(v: &V) -> Option<String> {
    Some(match v {
        V::Num(n) => format!("{}", n),
        V::Str(s) => format!("'{}", s),
        V::Bool(b) => if *b { "TRUE".into() } else { "FALSE".into() },
        V::Err(e) => e.clone(),
        V::Empty => return None,
    })
}

/// Shrink a failing workbook: drop cells; freeze the other formulas to the values the engine
/// shows for them; replace the failing formula by its own sub-expressions.
fn shrink_c06(nsheets: u32, cells: &Cells, mm: &Mismatch) -> Cells {
    let fires = |cs: &Cells| {
        let mut scratch = Stats::default();
        matches!(first_c06(nsheets, cs, &mut scratch), Some(m) if m.check == mm.check && m.cats == mm.cats)
    };
    let mut small = cells.clone();
    let mut j = small.len();
    while j > 0 {
        j -= 1;
        let mut cand = small.clone();
        cand.remove(j);
        if fires(&cand) {
            small = cand;
        }
    }
    // freeze the other formulas
    if let Ok(Ok(m)) = guarded(|| build_model(nsheets, &small)) {
        for j in 0..small.len() {
            let (s, r, c, ref t) = small[j];
            if !t.starts_with('=') {
                continue;
            }
            let Ok(v) = engine_value(&m, s, r, c) else { continue };
            let Some(lit) = literal_input(&v) else { continue };
            let mut cand = small.clone();
            cand[j].3 = lit;
            // exactly one formula must stay for the mismatch to be about it
            if cand.iter().any(|x| x.3.starts_with('=')) && fires(&cand) {
                small = cand;
            }
        }
    }
    // sub-expressions of the failing formula
    for _ in 0..12 {
        let Ok(Ok(m)) = guarded(|| build_model(nsheets, &small)) else { break };
        let mut scratch = Stats::default();
        let Some(cur) = check_c06(&m, &mut scratch).into_iter().next() else { break };
        let (s, r, c) = cur.cell;
        let Some(node) = formula_node(&m, s, r, c) else { break };
        let Some(j) = small.iter().position(|x| (x.0, x.1, x.2) == (s, r, c)) else { break };
        let ctx = ironcalc_base::expressions::types::CellReferenceRC { sheet: format!("Sheet{}", s + 1), row: r, column: c };
        let mut progressed = false;
        for child in nodeutil::children(node) {
            let text = format!("={}", ironcalc_base::expressions::parser::stringify::to_excel_string(child, &ctx));
            let mut cand = small.clone();
            cand[j].3 = text;
            if fires(&cand) {
                small = cand;
                progressed = true;
                break;
            }
        }
        if !progressed {
            break;
        }
    }
    small
}

fn run_c06(ctx: &Ctx) -> Stats {
    let n = ctx.n(60_000, 4_000_000);
    let seed = ctx.seed;
    crate::par::run_cases(n, ctx.threads, Duration::from_secs(if ctx.quick() { 60 } else { 1500 }), |i, st| {
        let mut rng = crate::util::rng_for(seed, 6, i);
        let nsheets = 1 + (i % 2) as u32;
        let cells = gen_acyclic(&mut rng, nsheets);
        if i < 2 {
            st.sample(json!({"nsheets": nsheets, "cells": cells.iter().take(10).collect::<Vec<_>>(), "total": cells.len()}));
        }
        if let Some(mm) = first_c06(nsheets, &cells, st) {
            let small = shrink_c06(nsheets, &cells, &mm);
            let mut scratch = Stats::default();
            let mm = first_c06(nsheets, &small, &mut scratch).unwrap_or(mm);
            ctx.report(st, mm.check, format!("{}|{}|{}", mm.check, mm.key, mm.cats), mm.detail, json!({"nsheets": nsheets, "cells": small}));
        }
    })
}

fn parse_case(case: &Value) -> Option<(u32, Cells)> {
    let nsheets = case.get("nsheets")?.as_u64()? as u32;
    let cells: Cells = serde_json::from_value(case.get("cells")?.clone()).ok()?;
    Some((nsheets, cells))
}

fn replay_c06(_ctx: &Ctx, case: &Value) -> Vec<Violation> {
    let Some((nsheets, cells)) = parse_case(case) else { return vec![] };
    let Ok(Ok(m)) = guarded(|| build_model(nsheets, &cells)) else { return vec![] };
    let mut st = Stats::default();
    check_c06(&m, &mut st)
        .into_iter()
        .map(|mm| Violation { check: mm.check.into(), sig: format!("{}|{}|{}", mm.check, mm.key, mm.cats), detail: mm.detail, case: case.clone() })
        .collect()
}

// ---------------------------------------------------------------- C05

/// static reference graph over formula cells (plain and array anchors; a spill cell reads its anchor)
struct Graph {
    /// edges[x] = (y, how the read is used)
    edges: BTreeMap<(u32, i32, i32), Vec<((u32, i32, i32), refeval::ReadKind)>>,
    reads: BTreeMap<(u32, i32, i32), Vec<(u32, i32, i32, i32, i32)>>,
    fully_static: bool,
}

fn build_graph(m: &Model) -> Graph {
    let mut g = Graph { edges: BTreeMap::new(), reads: BTreeMap::new(), fully_static: true };
    let mut nodes: BTreeMap<(u32, i32, i32), Option<&ironcalc_base::expressions::parser::Node>> = BTreeMap::new();
    let mut spill_of: Vec<((u32, i32, i32), (u32, i32, i32))> = vec![];
    for (si, ws) in m.workbook.worksheets.iter().enumerate() {
        for (r, row) in &ws.sheet_data {
            for (c, cell) in row {
                match cell {
                    Cell::CellFormula { f, .. } | Cell::ArrayFormula { f, .. } => {
                        let node = m.parsed_formulas.get(si).and_then(|v| v.get(*f as usize)).map(|p| &p.0);
                        nodes.insert((si as u32, *r, *c), node);
                    }
                    Cell::SpillCell { a, .. } => spill_of.push(((si as u32, *r, *c), (si as u32, a.0, a.1))),
                    _ => {}
                }
            }
        }
    }
    for (k, node) in &nodes {
        let Some(node) = node else {
            g.fully_static = false;
            continue;
        };
        let mut dynamic = false;
        nodeutil::walk(node, &mut |x| {
            use ironcalc_base::expressions::parser::Node as N;
            match x {
                N::DefinedNameKind(_) | N::NamedFunctionKind { .. } | N::LambdaDefKind { .. } | N::LambdaCallKind { .. } | N::TableNameKind(_) | N::OpRangeKind { .. } | N::SpillRangeOperator { .. } => dynamic = true,
                N::FunctionKind { kind, .. } => {
                    if matches!(format!("{:?}", kind).as_str(), "Offset" | "Indirect" | "Index" | "Choose" | "Xlookup") {
                        dynamic = true
                    }
                }
                _ => {}
            }
        });
        if dynamic {
            g.fully_static = false;
        }
        let reads = refeval::static_reads(node, k.0, k.1, k.2);
        let mut es = vec![];
        for (rect, lazy) in &reads {
            for y in nodes.keys() {
                if y.0 == rect.0 && y.1 >= rect.1 && y.1 <= rect.3 && y.2 >= rect.2 && y.2 <= rect.4 {
                    es.push((*y, *lazy));
                }
            }
            for (sp, anchor) in &spill_of {
                if sp.0 == rect.0 && sp.1 >= rect.1 && sp.1 <= rect.3 && sp.2 >= rect.2 && sp.2 <= rect.4 {
                    es.push((*anchor, *lazy));
                }
            }
        }
        g.reads.insert(*k, reads.iter().map(|x| x.0).collect());
        g.edges.insert(*k, es);
    }
    g
}

impl Graph {
    /// cells reachable from x through >= 1 edge of kind <= `upto`
    fn reach(&self, x: (u32, i32, i32), upto: refeval::ReadKind) -> BTreeSet<(u32, i32, i32)> {
        let mut seen = BTreeSet::new();
        let mut todo = vec![x];
        while let Some(k) = todo.pop() {
            for (y, kind) in self.edges.get(&k).map(|v| v.as_slice()).unwrap_or(&[]) {
                if *kind > upto {
                    continue;
                }
                if seen.insert(*y) {
                    todo.push(*y);
                }
            }
        }
        seen
    }
}

fn check_c05(m: &Model, st: &mut Stats) -> Vec<Mismatch> {
    let mut out = vec![];
    let mut tagged = vec![];
    let g = build_graph(m);
    let mut env = Local { m };
    let circ = V::Err("#CIRC!".to_string());
    for (s, r, c) in formula_cells(m) {
        let Some(node) = formula_node(m, s, r, c) else { continue };
        if nodeutil::contains_parse_error(node) {
            continue;
        }
        let Ok(shown) = engine_value(m, s, r, c) else {
            st.count("unevaluated_cells");
            continue;
        };
        let text = m.get_cell_formula(s, r, c).ok().flatten().unwrap_or_default();
        // 1. local consistency
        let mut ev = refeval::eval_at(&mut env, s, r, c);
        let res = ev.cell_result(node);
        let tag = ev.tags.iter().next().cloned();
        match res {
            Ok(e) => {
                st.evaluations += 1;
                st.shape(format!("{}→{}", nodeutil::skeleton(node, 2), kind(&e)));
                let on_cycle = g.reach((s, r, c), refeval::ReadKind::Lazy).contains(&(s, r, c));
                if on_cycle {
                    st.count("cells_on_static_cycle_checked");
                }
                // the value of a cell on a reference cycle is judged by the #CIRC! clauses only
                if !refeval::same(&e, &shown) && !on_cycle {
                    let mm = Mismatch {
                        cell: (s, r, c),
                        check: "stale-or-inconsistent-value",
                        key: tag.unwrap_or("-").to_string(),
                        cats: format!("{}/{}", kind(&e), kind(&shown)),
                        detail: format!("{} {}: shows {:?}, but over the current values of the cells it reads the formula gives {:?}", cell_name(s, r, c), text, shown, e),
                    };
                    if tag.is_some() {
                        tagged.push(mm)
                    } else {
                        out.push(mm)
                    }
                }
            }
            Err(u) => {
                st.count("no_opinion");
                st.set_add("no_opinion_reasons", u.0);
            }
        }
        if !g.fully_static {
            st.count("circ_clauses_skipped_dynamic_references");
            continue;
        }
        // 2. #CIRC! only on a cycle or downstream of one
        let reach = g.reach((s, r, c), refeval::ReadKind::Lazy);
        if shown == circ {
            st.count("circ_cells_seen");
            let on_cycle = reach.contains(&(s, r, c));
            let reads_circ = g.reads.get(&(s, r, c)).map(|rects| {
                rects.iter().any(|rect| {
                    let mut any = false;
                    if (rect.3 - rect.1 + 1) as i64 * (rect.4 - rect.2 + 1) as i64 <= 4000 {
                        for rr in rect.1..=rect.3 {
                            for cc in rect.2..=rect.4 {
                                if (rect.0, rr, cc) != (s, r, c) && engine_value(m, rect.0, rr, cc).ok() == Some(circ.clone()) {
                                    any = true;
                                }
                            }
                        }
                    } else {
                        any = true;
                    }
                    any
                })
            });
            if !on_cycle && reads_circ == Some(false) {
                out.push(Mismatch {
                        cell: (s, r, c),
                    check: "circ-without-cycle",
                    key: "-".into(),
                    cats: "-".into(),
                    detail: format!("{} ={} shows #CIRC! but is on no reference cycle and reads no cell that shows #CIRC!", cell_name(s, r, c), text),
                });
            }
        }
        // 3. on a cycle whose every edge is always evaluated, with error-free side inputs => #CIRC!
        let strict = g.reach((s, r, c), refeval::ReadKind::Strict);
        if strict.contains(&(s, r, c)) {
            let scc: Vec<(u32, i32, i32)> = strict.iter().filter(|y| g.reach(**y, refeval::ReadKind::Strict).contains(&(s, r, c))).cloned().collect();
            let mut clean = true;
            for y in &scc {
                let plain = formula_node(m, y.0, y.1, y.2).is_some();
                if !plain {
                    clean = false;
                }
                for rect in g.reads.get(y).map(|v| v.as_slice()).unwrap_or(&[]) {
                    if (rect.3 - rect.1 + 1) as i64 * (rect.4 - rect.2 + 1) as i64 > 4000 {
                        clean = false;
                        continue;
                    }
                    for rr in rect.1..=rect.3 {
                        for cc in rect.2..=rect.4 {
                            if scc.contains(&(rect.0, rr, cc)) {
                                continue;
                            }
                            match engine_value(m, rect.0, rr, cc) {
                                Ok(V::Err(e)) if e != "#CIRC!" => clean = false,
                                Err(_) => clean = false,
                                _ => {}
                            }
                        }
                    }
                }
                // literal errors inside the formulas would also end evaluation early
                if let Some(n) = formula_node(m, y.0, y.1, y.2) {
                    nodeutil::walk(n, &mut |x| {
                        if matches!(x, ironcalc_base::expressions::parser::Node::ErrorKind(_) | ironcalc_base::expressions::parser::Node::WrongReferenceKind { .. } | ironcalc_base::expressions::parser::Node::WrongRangeKind { .. }) {
                            clean = false;
                        }
                    });
                }
            }
            if clean {
                st.count("strict_cycle_members_checked");
                if !matches!(shown, V::Err(_)) {
                    out.push(Mismatch {
                        cell: (s, r, c),
                        check: "cycle-without-circ",
                        key: "-".into(),
                        cats: kind(&shown),
                        detail: format!("{} ={} is on a reference cycle every edge of which is always evaluated, yet shows {:?}", cell_name(s, r, c), text, shown),
                    });
                }
            }
        } else {
            let soft = g.reach((s, r, c), refeval::ReadKind::Absorbing);
            if soft.contains(&(s, r, c)) {
                st.count("absorbing_cycle_members_seen");
                if !matches!(shown, V::Err(_)) {
                    tagged.push(Mismatch {
                        cell: (s, r, c),
                        check: "cycle-without-circ",
                        key: "absorbed-circ".into(),
                        cats: kind(&shown),
                        detail: format!("{} {} is on a reference cycle that passes through an error-absorbing function, and shows {:?}", cell_name(s, r, c), text, shown),
                    });
                }
            }
        }
    }
    out.extend(tagged);
    out
}

fn pool_any(rng: &mut StdRng, nsheets: u32, own: u32) -> Pool {
    let mut pool = Pool { cells: vec![], ranges: vec![] };
    for _ in 0..6 {
        let s2 = if rng.gen_bool(0.8) { own } else { rng.gen_range(0..nsheets) };
        pool.cells.push(a1(&sheet_prefix(s2, own), rng.gen_range(1..=ROWS), rng.gen_range(1..=COLS), rng));
    }
    for _ in 0..4 {
        let s2 = if rng.gen_bool(0.8) { own } else { rng.gen_range(0..nsheets) };
        let (r1, c1) = (rng.gen_range(1..=ROWS), rng.gen_range(1..=COLS));
        let (r2, c2) = (rng.gen_range(r1..=(r1 + 2).min(ROWS)), rng.gen_range(c1..=(c1 + 2).min(COLS)));
        pool.ranges.push(format!("{}:{}", a1(&sheet_prefix(s2, own), r1, c1, rng), a1("", r2, c2, rng)));
    }
    let s2 = if rng.gen_bool(0.5) { own } else { rng.gen_range(0..nsheets) };
    let p = sheet_prefix(s2, own);
    if rng.gen_bool(0.8) {
        return pool;
    }
    if rng.gen_bool(0.5) {
        let c1 = rng.gen_range(1..=COLS);
        pool.ranges.push(format!("{p}{}:{}", col_name(c1), col_name(c1)));
    } else {
        let r1 = rng.gen_range(1..=ROWS);
        pool.ranges.push(format!("{p}{r1}:{r1}"));
    }
    pool
}

fn gen_history(rng: &mut StdRng, nsheets: u32, cfg: &GenCfg, acyclic: bool) -> Vec<Op> {
    let en = Dialect::new("en", "en");
    let mut um = ops::new_user_model(nsheets);
    let mut list = vec![];
    let len = rng.gen_range(6..40);
    for _ in 0..len {
        let op = match rng.gen_range(0..10) {
            0..=4 => {
                let s = rng.gen_range(0..nsheets);
                let (r, c) = (rng.gen_range(1..=ROWS), rng.gen_range(1..=COLS));
                let pool = if acyclic {
                    // only rows above: no cycle can form
                    let mut p = Pool { cells: vec![], ranges: vec![] };
                    if r > 1 {
                        for _ in 0..5 {
                            p.cells.push(a1("", rng.gen_range(1..r), rng.gen_range(1..=COLS), rng));
                        }
                        let r1 = rng.gen_range(1..r);
                        p.ranges.push(format!("{}:{}", a1("", r1, 1, rng), a1("", rng.gen_range(r1..r), COLS, rng)));
                    }
                    p
                } else {
                    pool_any(rng, nsheets, s)
                };
                let depth = rng.gen_range(1..=3);
                let f = core_expr(rng, depth, &pool);
                Op::Input(s, r, c, format!("={}", fgen::print(&f, &en)))
            }
            5..=6 => Op::Input(rng.gen_range(0..nsheets), rng.gen_range(1..=ROWS), rng.gen_range(1..=COLS), constant(rng)),
            _ => ops::gen_op_avoiding(rng, &um, cfg),
        };
        if matches!(op, Op::SetLocale(_) | Op::SetLanguage(_) | Op::SetTimezone(_)) {
            continue;
        }
        if guarded(|| ops::apply(&mut um, &op)).is_err() {
            break;
        }
        list.push(op);
    }
    list
}

/// first violation, the index of the step after which it shows, and the op kind
fn first_c05(nsheets: u32, list: &[Op], st: &mut Stats) -> Option<(Mismatch, usize)> {
    let mut um = ops::new_user_model(nsheets);
    for (i, op) in list.iter().enumerate() {
        if guarded(|| ops::apply(&mut um, op)).is_err() {
            st.count("history_panicked");
            return None;
        }
        if guarded(|| um.evaluate()).is_err() {
            st.count("evaluate_panicked");
            return None;
        }
        if let Some(mm) = check_c05(um.get_model(), st).into_iter().next() {
            return Some((mm, i));
        }
        st.set_add("ops_checked_after", ops::kind(op));
    }
    None
}

fn run_c05(ctx: &Ctx) -> Stats {
    let n = ctx.n(20_000, 1_500_000);
    let seed = ctx.seed;
    crate::par::run_cases(n, ctx.threads, Duration::from_secs(if ctx.quick() { 70 } else { 1500 }), |i, st| {
        let mut rng = crate::util::rng_for(seed, 5, i);
        let clean = !ctx.avoid.is_empty() && i % 2 == 0;
        let mut avoid: Vec<&str> = if clean { ctx.avoid_alt(i / 2) } else { vec![] };
        // the histories bring their own formulas
        avoid.extend(["formulas", "cse_arrays", "dyn_arrays", "names", "locale"]);
        let acyclic = avoid.contains(&"cyclic");
        let mut cfg = GenCfg::new(&avoid);
        cfg.rows = ROWS;
        cfg.cols = COLS;
        cfg.edges = false;
        let nsheets = 1 + (i % 2) as u32;
        let list = gen_history(&mut rng, nsheets, &cfg, acyclic);
        if i < 2 {
            st.sample(json!({"nsheets": nsheets, "ops": list.iter().take(8).collect::<Vec<_>>(), "total": list.len()}));
        }
        if let Some((mm, at)) = first_c05(nsheets, &list, st) {
            let mut small: Vec<Op> = list[..=at].to_vec();
            let mut j = small.len();
            while j > 0 {
                j -= 1;
                let mut cand = small.clone();
                cand.remove(j);
                let mut scratch = Stats::default();
                if matches!(first_c05(nsheets, &cand, &mut scratch), Some((m2, _)) if m2.check == mm.check && m2.cats == mm.cats) {
                    small = cand;
                }
            }
            let mut scratch = Stats::default();
            let (mm, at) = first_c05(nsheets, &small, &mut scratch).unwrap_or((mm, at));
            let after = small.get(at).map(ops::kind).unwrap_or_default();
            let sig = format!("{}{}|{}|{}", if clean { "cleanroom/" } else { "" }, mm.check, if mm.key == "-" { after.clone() } else { mm.key.clone() }, mm.cats);
            ctx.report(st, mm.check, sig, format!("after {after}: {}", mm.detail), json!({"nsheets": nsheets, "ops": small}));
        }
    })
}

fn replay_c05(_ctx: &Ctx, case: &Value) -> Vec<Violation> {
    let nsheets = case.get("nsheets").and_then(|n| n.as_u64()).unwrap_or(1) as u32;
    let Ok(list) = serde_json::from_value::<Vec<Op>>(case.get("ops").cloned().unwrap_or(Value::Null)) else { return vec![] };
    let mut st = Stats::default();
    match first_c05(nsheets, &list, &mut st) {
        Some((mm, at)) => {
            let after = list.get(at).map(ops::kind).unwrap_or_default();
            vec![Violation { check: mm.check.into(), sig: format!("{}|{}|{}", mm.check, if mm.key == "-" { after } else { mm.key.clone() }, mm.cats), detail: mm.detail, case: case.clone() }]
        }
        None => vec![],
    }
}

pub fn props() -> Vec<PropInfo> {
    vec![
        PropInfo {
            id: "C05",
            level: "exploration",
            rule: "random edit histories on a UserModel (core-language formulas that may form cycles, constants of every type, and the history engine's non-formula operations: clears, structural edits, paste, autofill, undo/redo, sheet operations); after every step and an evaluate(), each plain formula cell is recomputed by the reference evaluator RE from the values the engine currently holds in the cells it reads and must show that value; #CIRC! is judged against the static reference graph (shown only on a cycle or next to a cell showing it; shown on every cycle whose edges are always evaluated and whose side inputs are error-free); shape key = (operator skeleton to depth 2, result kind)",
            assumptions: &[
                "RE covers the core language of C06; a formula or an input RE has no opinion on (reason counted in no_opinion_reasons) is not judged",
                "cycle clauses are skipped for workbooks containing dynamic references (OFFSET, INDIRECT, names, lambdas)",
                "a cell on a static cycle may show #CIRC! instead of the locally recomputed value",
            ],
            run: run_c05,
            replay: replay_c05,
        },
        PropInfo {
            id: "C06",
            level: "exploration",
            rule: "random acyclic workbooks (1-2 sheets, 6x5 cells, a formula reads only cells of lower rank in a random order, inputs entered in random order) in the core formula language with constants of every type; every formula cell's value is compared with the value the reference evaluator RE (written from the spreadsheet's coercion, comparison and error-propagation rules; evaluates the stored tree recursively in its own order) assigns; numbers to 1e-9 relative; shape key = (operator skeleton to depth 2, result kind)",
            assumptions: &[
                "RE has no opinion (counted, with reasons) on numeric look-alike text used as a number, numbers that print in scientific notation when converted to text, comparisons decided by the 15-digit rule, ROUND ties hidden by binary representation, collation of non-alphanumeric text, empty arguments, and ranges used as values",
                "the tree RE evaluates is the one the engine's parser built from the typed text (the parser is judged by C09)",
            ],
            run: run_c06,
            replay: replay_c06,
        },
    ]
}
