//! C23 — function and error names round-trip in every language (exhaustive tables).

use super::{Ctx, PropInfo};
use crate::evid::{Stats, Violation};
use ironcalc_base::expressions::parser::{Node, Parser};
use ironcalc_base::expressions::token::{get_error_by_english_name, get_error_by_name, Error};
use ironcalc_base::expressions::types::CellReferenceRC;
use ironcalc_base::language::get_language;
use ironcalc_base::locale::get_locale;
use ironcalc_base::verif_hooks::all_functions;
use ironcalc_base::Model;
use serde_json::{json, Value};
use std::collections::{BTreeMap, HashMap};

const LANGS: &[&str] = &["en", "es", "fr", "de", "it"];

fn all_errors() -> Vec<Error> {
    vec![
        Error::REF, Error::NAME, Error::VALUE, Error::DIV, Error::NA, Error::NUM, Error::ERROR,
        Error::NIMPL, Error::SPILL, Error::CALC, Error::CIRC, Error::NULL,
    ]
}

fn ctx_cell() -> CellReferenceRC {
    CellReferenceRC { sheet: "Sheet1".into(), row: 1, column: 1 }
}

fn check_all(st: &mut Stats, only: Option<&str>) {
    let funcs = all_functions();
    st.add("functions", funcs.len() as u64);
    let en_locale = get_locale("en").expect("locale");
    for lang_id in LANGS {
        let lang = get_language(lang_id).expect("language");
        let mut names: BTreeMap<String, String> = BTreeMap::new();
        let mut parser = Parser::new(vec!["Sheet1".into()], vec![], HashMap::new(), en_locale, lang);
        for f in &funcs {
            let fname = format!("{:?}", f);
            if let Some(o) = only {
                if o != fname {
                    continue;
                }
            }
            st.evaluations += 1;
            let local = f.to_localized_name(lang);
            // (1) lookup of the localized name gives the same function
            let back = lang.functions.lookup(&local).map(|g| format!("{:?}", g));
            if back.as_deref() != Some(fname.as_str()) {
                st.violation(
                    "function-lookup",
                    format!("function-lookup|{lang_id}|{fname}"),
                    format!("{lang_id}: {fname} is named {local:?}, which looks up to {:?}", back),
                    json!({"function": fname, "language": lang_id}),
                );
            }
            // (2) no two functions share a name
            if let Some(prev) = names.insert(local.to_uppercase(), fname.clone()) {
                st.violation(
                    "function-duplicate",
                    format!("function-duplicate|{lang_id}|{fname}"),
                    format!("{lang_id}: {prev} and {fname} share the name {local:?}"),
                    json!({"function": fname, "language": lang_id}),
                );
            }
            // (3) the localized name parses to the function in a formula of that language
            // LAMBDA has its own syntax (parameters and a body) and its own node
            let node = if fname == "Lambda" {
                parser.parse(&format!("{local}(x{}x)", if *lang_id == "en" { "," } else { "," }), &ctx_cell())
            } else {
                parser.parse(&format!("{local}()"), &ctx_cell())
            };
            let ok = matches!(&node, Node::FunctionKind { kind, .. } if format!("{:?}", kind) == fname)
                || (fname == "Lambda" && matches!(&node, Node::LambdaDefKind { .. }));
            if !ok {
                st.violation(
                    "function-parse",
                    format!("function-parse|{lang_id}|{fname}"),
                    format!("{lang_id}: {local}() parses to {:?}, expected {fname}", short(&node)),
                    json!({"function": fname, "language": lang_id}),
                );
            }
            st.shape(format!("fn:{lang_id}:{}", fname.chars().next().unwrap_or('?')));
        }
        // errors in this language
        for e in all_errors() {
            st.evaluations += 1;
            let text = e.to_localized_error_string(lang);
            let back = get_error_by_name(&text, lang);
            let node = parser.parse(&text, &ctx_cell());
            let parsed_ok = matches!(&node, Node::ErrorKind(k) if *k == e);
            if back.as_ref() != Some(&e) || !parsed_ok {
                st.violation(
                    "error-name",
                    format!("error-name|{lang_id}|{:?}", e),
                    format!("{lang_id}: error {:?} is named {text:?}; lookup gives {:?}, parsing gives {:?}", e, back, short(&node)),
                    json!({"error": format!("{:?}", e), "language": lang_id}),
                );
            }
            st.shape(format!("err:{lang_id}"));
        }
    }
    // xlsx (English) forms
    let en = get_language("en").expect("language");
    let mut parser = Parser::new(vec!["Sheet1".into()], vec![], HashMap::new(), en_locale, en);
    for f in &funcs {
        let fname = format!("{:?}", f);
        if let Some(o) = only {
            if o != fname {
                continue;
            }
        }
        st.evaluations += 1;
        let x = f.to_xlsx_string();
        let node = if fname == "Lambda" {
            parser.parse(&format!("{x}(x,x)"), &ctx_cell())
        } else {
            parser.parse(&format!("{x}()"), &ctx_cell())
        };
        let ok = matches!(&node, Node::FunctionKind { kind, .. } if format!("{:?}", kind) == fname)
            || (fname == "Lambda" && matches!(&node, Node::LambdaDefKind { .. }));
        if !ok {
            st.violation(
                "function-xlsx",
                format!("function-xlsx|-|{fname}"),
                format!("xlsx name {x}() of {fname} parses to {:?}", short(&node)),
                json!({"function": fname, "language": "xlsx"}),
            );
        }
        st.shape(format!("xlsx:{}", fname.chars().next().unwrap_or('?')));
    }
    for e in all_errors() {
        st.evaluations += 1;
        let text = format!("{}", e); // the Display form is what export writes
        let back = get_error_by_english_name(&text);
        let node = parser.parse(&text, &ctx_cell());
        let parsed_ok = matches!(&node, Node::ErrorKind(k) if *k == e);
        if back.as_ref() != Some(&e) || !parsed_ok {
            st.violation(
                "error-xlsx",
                format!("error-xlsx|-|{:?}", e),
                format!("error {:?} is written {text:?}; english lookup gives {:?}, parsing gives {:?}", e, back, short(&node)),
                json!({"error": format!("{:?}", e), "language": "xlsx"}),
            );
        }
        st.shape("err:xlsx".into());
    }
}

fn short(n: &Node) -> String {
    let s = format!("{:?}", n);
    s.chars().take(120).collect()
}

/// End-to-end leg: every function typed in a cell, exported to xlsx, imported, same formula.
fn xlsx_leg(st: &mut Stats) {
    let funcs = all_functions();
    let en = get_language("en").expect("language");
    let mut model = match Model::new_empty("fn", "en", "UTC", "en") {
        Ok(m) => m,
        Err(e) => {
            st.notes.push(format!("xlsx leg skipped: {e}"));
            return;
        }
    };
    for (i, f) in funcs.iter().enumerate() {
        let _ = model.set_user_input(0, i as i32 + 1, 1, format!("={}()", f.to_localized_name(en)));
    }
    model.evaluate();
    let before: Vec<String> = (0..funcs.len())
        .map(|i| model.get_cell_formula(0, i as i32 + 1, 1).ok().flatten().unwrap_or_default())
        .collect();
    let bytes = match crate::util::guarded(|| {
        ironcalc::export::save_xlsx_to_writer(&model, std::io::Cursor::new(Vec::new())).map(|c| c.into_inner())
    }) {
        Ok(Ok(b)) => b,
        other => {
            st.violation("xlsx-leg", "xlsx-leg|export|".into(), format!("export failed: {:?}", other.map(|r| r.map(|b| b.len()))), json!({"leg": "xlsx"}));
            return;
        }
    };
    let wb = match crate::util::guarded(|| ironcalc::import::load_from_xlsx_bytes(&bytes, "fn", "en", "UTC")) {
        Ok(Ok(wb)) => wb,
        other => {
            st.violation("xlsx-leg", "xlsx-leg|import|".into(), format!("import failed: {:?}", other.map(|r| r.map(|_| ()))), json!({"leg": "xlsx"}));
            return;
        }
    };
    let m2 = match Model::from_workbook(wb, "en") {
        Ok(m) => m,
        Err(e) => {
            st.violation("xlsx-leg", "xlsx-leg|model|".into(), format!("from_workbook failed: {e}"), json!({"leg": "xlsx"}));
            return;
        }
    };
    for (i, f) in funcs.iter().enumerate() {
        st.evaluations += 1;
        let after = m2.get_cell_formula(0, i as i32 + 1, 1).ok().flatten().unwrap_or_default();
        if after != before[i] {
            st.violation(
                "xlsx-leg",
                "xlsx-leg|formula|".into(),
                format!("{:?}: formula {:?} came back from xlsx as {:?}", f, before[i], after),
                json!({"leg": "xlsx", "function": format!("{:?}", f)}),
            );
            if st.violations.len() > 20 {
                break;
            }
        }
    }
    st.shape("xlsx-leg".into());
    st.sample(json!({"typed": before.get(3), "through": "save_xlsx_to_writer -> load_from_xlsx_bytes"}));
}

fn run(_ctx: &Ctx) -> Stats {
    let mut st = Stats::default();
    check_all(&mut st, None);
    xlsx_leg(&mut st);
    st.extra.insert("exhaustive".into(), json!(true));
    st.extra.insert("exhaustive_scope".into(), json!("every built-in function x {en,es,fr,de,it} + xlsx name; every error kind x 5 languages + xlsx form"));
    st.sample(json!({"function": "Sum", "languages": LANGS}));
    st
}

fn replay(_ctx: &Ctx, case: &Value) -> Vec<Violation> {
    let mut st = Stats::default();
    if case.get("leg").is_some() {
        xlsx_leg(&mut st);
    } else {
        check_all(&mut st, case.get("function").and_then(|f| f.as_str()));
    }
    st.violations
}

pub fn props() -> Vec<PropInfo> {
    vec![PropInfo {
        id: "C23",
        level: "exploration",
        rule: "exhaustive over the function table (via the verif_hooks re-export) x 5 languages: localized name -> lookup, uniqueness, parse of NAME(); xlsx name -> English parse; all error kinds x languages; plus one workbook holding every function exported to xlsx and imported again; shape key = (leg, language, initial letter)",
        assumptions: &["functions are compared through their Debug names (the enum is not nameable for PartialEq outside the crate without the hook)"],
        run,
        replay,
    }]
}
