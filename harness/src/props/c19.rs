//! C19 — typed numbers are recognised exactly.
//! Oracle: an independent three-valued recogniser written from the property sentence.

use super::{Ctx, PropInfo};
use crate::evid::{Stats, Violation};
use crate::props::c21::{civil_from_days, MAX_SERIAL};
use ironcalc_base::cell::CellValue;
use ironcalc_base::expressions::types::Area;
use ironcalc_base::locale::get_locale;
use ironcalc_base::Model;
use rand::Rng;
use serde_json::{json, Value};
use std::time::Duration;

const LOCALES: &[&str] = &["en", "en-GB", "de", "es", "fr", "it"];

#[derive(Debug, Clone, PartialEq)]
pub enum Verdict {
    /// must be stored as this number; the format must be of this kind ("" = any)
    Must(f64, &'static str),
    /// must not be stored as a number
    MustNot,
    /// the statement is silent; but if it is stored as a number it must be this one (when Some)
    DontCare(Option<f64>),
}

struct Loc {
    decimal: char,
    group: char,
    currency: String,
}

fn loc_of(id: &str) -> Loc {
    let l = get_locale(id).expect("locale");
    Loc {
        decimal: l.numbers.symbols.decimal.chars().next().unwrap_or('.'),
        group: l.numbers.symbols.group.chars().next().unwrap_or(','),
        currency: l.currency.symbol.clone(),
    }
}

/// core := digits-with-groups (D digits+)? ((e|E) sign? digits+)?   -> value and flags
/// Returns Ok(Some((value, grouped, exponent))) when strictly canonical, Ok(None) when
/// it is clearly not a number, Err(()) when the statement is silent (".5", "5.", ...).
fn parse_core(core: &str, l: &Loc) -> Result<Option<(f64, bool, bool)>, ()> {
    if core.is_empty() {
        return Ok(None);
    }
    let chars: Vec<char> = core.chars().collect();
    if !chars.iter().all(|c| c.is_ascii_digit() || *c == l.decimal || *c == l.group || matches!(c, 'e' | 'E' | '+' | '-')) {
        return Ok(None);
    }
    // split exponent
    let epos = chars.iter().position(|c| matches!(c, 'e' | 'E'));
    let (mant, exp): (&[char], Option<&[char]>) = match epos {
        Some(p) => (&chars[..p], Some(&chars[p + 1..])),
        None => (&chars[..], None),
    };
    if mant.iter().any(|c| matches!(c, '+' | '-')) {
        return Ok(None); // a sign inside the mantissa
    }
    let mut exp_val = 0i32;
    if let Some(e) = exp {
        let (sign, digits) = match e.first() {
            Some('+') => (1, &e[1..]),
            Some('-') => (-1, &e[1..]),
            _ => (1, e),
        };
        if digits.is_empty() {
            return Ok(None); // empty exponent
        }
        if !digits.iter().all(|c| c.is_ascii_digit()) {
            return Ok(None);
        }
        if digits.len() > 3 {
            return Err(());
        }
        exp_val = sign * digits.iter().collect::<String>().parse::<i32>().map_err(|_| ())?;
    }
    if mant.is_empty() {
        return Ok(None); // "e5"
    }
    let ndec = mant.iter().filter(|c| **c == l.decimal).count();
    if ndec > 1 {
        return Ok(None); // two decimal separators
    }
    let (int_part, frac_part): (&[char], Option<&[char]>) = match mant.iter().position(|c| *c == l.decimal) {
        Some(p) => (&mant[..p], Some(&mant[p + 1..])),
        None => (mant, None),
    };
    if let Some(f) = frac_part {
        if f.iter().any(|c| *c == l.group) {
            return Ok(None); // group separator after the decimal separator
        }
        if f.is_empty() || int_part.is_empty() {
            return Err(()); // "5." and ".5": silent
        }
    }
    if int_part.is_empty() {
        return Ok(None);
    }
    let grouped = int_part.iter().any(|c| *c == l.group);
    if grouped {
        let groups: Vec<&[char]> = int_part.split(|c| *c == l.group).collect();
        let first_ok = !groups[0].is_empty() && groups[0].len() <= 3;
        let rest_ok = groups[1..].iter().all(|g| g.len() == 3);
        if !first_ok || !rest_ok {
            // Misplaced for sure: a separator with no digit before it, not followed by
            // digits, or at a distance from the end that is not a multiple of three.
            // Separators at multiples of three with some of them missing ("1,234567",
            // "1234,567") are a reading the statement leaves open: silent.
            let lead_ok = !groups[0].is_empty();
            let multiples = groups[1..].iter().all(|g| !g.is_empty() && g.len() % 3 == 0);
            if lead_ok && multiples {
                return Err(());
            }
            return Ok(None); // misplaced group separator
        }
        if exp.is_some() {
            return Err(()); // grouping together with an exponent: silent
        }
    }
    let mut canon: String = int_part.iter().filter(|c| **c != l.group).collect();
    if let Some(f) = frac_part {
        canon.push('.');
        canon.extend(f.iter());
    }
    if exp.is_some() {
        canon.push_str(&format!("e{exp_val}"));
    }
    match canon.parse::<f64>() {
        Ok(v) if v.is_finite() => Ok(Some((v, grouped, exp.is_some()))),
        _ => Err(()),
    }
}

fn days_from_civil(y: i64, m: u32, d: u32) -> Option<i64> {
    // search via the inverse (cheap: only used for ISO dates)
    if !(1..=12).contains(&m) || !(1..=31).contains(&d) {
        return None;
    }
    let approx = (y - 1970) * 365 + (y - 1969) / 4 - (y - 1901) / 100 + (y - 1601) / 400 + (m as i64 - 1) * 31 + d as i64 - 1;
    for z in approx - 40..=approx + 10 {
        if civil_from_days(z) == (y, m, d) {
            return Some(z);
        }
    }
    None
}

pub fn classify(text: &str, locale_id: &str) -> Verdict {
    let l = loc_of(locale_id);
    if text.is_empty() {
        return Verdict::DontCare(None);
    }
    if text.contains(' ') || text.contains('\u{a0}') {
        return Verdict::DontCare(None);
    }
    // ISO date
    let b: Vec<char> = text.chars().collect();
    if b.len() == 10 && b[4] == '-' && b[7] == '-' && b.iter().enumerate().all(|(i, c)| i == 4 || i == 7 || c.is_ascii_digit()) {
        let y: i64 = text[0..4].parse().unwrap_or(0);
        let m: u32 = text[5..7].parse().unwrap_or(0);
        let d: u32 = text[8..10].parse().unwrap_or(0);
        return match days_from_civil(y, m, d) {
            Some(z) => {
                let serial = z + 25_569;
                if (1..=MAX_SERIAL).contains(&serial) {
                    Verdict::Must(serial as f64, "date")
                } else {
                    Verdict::DontCare(None)
                }
            }
            None => Verdict::MustNot,
        };
    }
    if text.contains('/') {
        return Verdict::DontCare(None); // other date shapes
    }
    {
        // d.m.y shaped dates (three digit groups separated by dots): which date shapes
        // are "supported" is not fixed by the statement
        let parts: Vec<&str> = text.split('.').collect();
        if parts.len() == 3
            && parts.iter().all(|p| {
                let p = p.strip_prefix('+').unwrap_or(p);
                !p.is_empty() && p.chars().all(|c| c.is_ascii_digit())
            })
        {
            return Verdict::DontCare(None);
        }
    }
    // things that look like d-m or d-m-y dates (digit groups joined by '-', the engine even
    // accepts a '+' in front of a group): which date shapes are supported is not fixed
    if text.contains('-') && !text.starts_with('-') && !text.to_lowercase().contains('e') {
        let parts: Vec<&str> = text.split('-').collect();
        if parts.len() >= 2
            && parts.iter().all(|p| {
                let p = p.strip_prefix('+').unwrap_or(p);
                !p.is_empty() && p.chars().all(|c| c.is_ascii_digit())
            })
        {
            return Verdict::DontCare(None);
        }
    }
    let mut s: &str = text;
    // percent
    let npct = s.matches('%').count();
    if npct > 1 {
        return Verdict::MustNot;
    }
    let mut percent = false;
    if npct == 1 {
        if let Some(p) = s.strip_suffix('%') {
            s = p;
            percent = true;
        } else {
            return Verdict::DontCare(None);
        }
    }
    // currency: the locale's own symbol, '$' and '€' are all typed currencies
    let mut currency = false;
    let mut sign_before_currency = false;
    let mut leading_sign = 1.0;
    let symbols: Vec<String> = {
        let mut v = vec!["$".to_string(), "€".to_string()];
        if !v.contains(&l.currency) {
            v.push(l.currency.clone());
        }
        v
    };
    let ncur: usize = symbols.iter().map(|c| s.matches(c.as_str()).count()).sum();
    if ncur > 1 {
        return Verdict::MustNot;
    }
    if ncur == 1 {
        let c = symbols.iter().find(|c| s.contains(c.as_str())).cloned().unwrap_or_default();
        if let Some(p) = s.strip_prefix(c.as_str()) {
            s = p;
            currency = true;
        } else if let Some(p) = s.strip_suffix(c.as_str()) {
            s = p;
            currency = true;
        } else if let Some(p) = s.strip_prefix(&format!("-{c}")) {
            s = p;
            currency = true;
            sign_before_currency = true;
            leading_sign = -1.0;
        } else if let Some(p) = s.strip_prefix(&format!("+{c}")) {
            s = p;
            currency = true;
            sign_before_currency = true;
        } else {
            return Verdict::DontCare(None);
        }
    }
    // sign
    let mut plus = false;
    let mut sign = 1.0;
    if let Some(p) = s.strip_prefix('-') {
        s = p;
        sign = -1.0;
    } else if let Some(p) = s.strip_prefix('+') {
        s = p;
        plus = true;
    }
    if sign_before_currency && (sign < 0.0 || plus) {
        return Verdict::DontCare(None); // "-$-5"
    }
    match parse_core(s, &l) {
        Ok(None) => {
            if s.is_empty() && !(percent || currency) && (plus || sign < 0.0) {
                return Verdict::MustNot; // lone sign
            }
            Verdict::MustNot
        }
        Err(()) => Verdict::DontCare(None),
        Ok(Some((v, grouped, exponent))) => {
            let mut value = leading_sign * sign * v;
            if percent {
                value /= 100.0;
            }
            let mixed = (percent as u8 + currency as u8 + exponent as u8) > 1;
            if plus || sign_before_currency || mixed || (percent && currency) {
                return Verdict::DontCare(Some(value));
            }
            let kind = if percent {
                "percent"
            } else if currency {
                "currency"
            } else if exponent {
                "exponent"
            } else if grouped {
                "grouped"
            } else {
                ""
            };
            Verdict::Must(value, kind)
        }
    }
}

fn kind_ok(kind: &str, num_fmt: &str, l: &Loc) -> bool {
    let f = num_fmt;
    match kind {
        "percent" => f.contains('%'),
        "currency" => f.contains('$') || f.contains('€') || f.contains(l.currency.as_str()),
        "exponent" => f.contains("E+") || f.contains("E-") || f.contains("e+"),
        "grouped" => f.contains("#,##"),
        "date" => f.to_lowercase().contains('y') || f.to_lowercase().contains('d'),
        _ => true,
    }
}

fn close(a: f64, b: f64) -> bool {
    a == b || (a - b).abs() <= 1e-12 * a.abs().max(b.abs())
}

/// Observe what the engine does with `text` in a fresh cell. Returns (is_number, value, num_fmt)
fn observe(model: &mut Model, text: &str) -> Result<(bool, f64, String), String> {
    let area = Area { sheet: 0, row: 1, column: 1, width: 1, height: 1 };
    model.range_clear_all(&area)?;
    model.set_user_input(0, 1, 1, text.to_string())?;
    model.evaluate();
    let is_formula = model.get_cell_formula(0, 1, 1)?.is_some();
    if is_formula {
        return Err("formula".into());
    }
    let v = model.get_cell_value_by_index(0, 1, 1)?;
    let fmt = model.get_style_for_cell(0, 1, 1)?.num_fmt;
    Ok(match v {
        CellValue::Number(n) => (true, n, fmt),
        _ => (false, 0.0, fmt),
    })
}

fn check(model: &mut Model, text: &str, locale_id: &str, st: &mut Stats) -> Option<(String, String)> {
    st.evaluations += 1;
    let verdict = classify(text, locale_id);
    let obs = match crate::util::guarded(|| observe(model, text)) {
        Err(p) => return Some(("panic".into(), format!("[{locale_id}] input {text:?} panicked: {p}"))),
        Ok(Err(e)) => {
            if e == "formula" {
                st.count("became_formula");
                // "+5x"-like inputs are formulas by the engine's rule; only MUST numbers may not be formulas
                if let Verdict::Must(..) = verdict {
                    return Some(("must-number".into(), format!("[{locale_id}] {text:?} denotes a number but was stored as a formula")));
                }
            }
            return None;
        }
        Ok(Ok(o)) => o,
    };
    let l = loc_of(locale_id);
    match verdict {
        Verdict::Must(v, kind) => {
            st.count("must");
            st.shape(format!("must:{kind}:{}", crate::util::erase_digits(text)));
            if !obs.0 {
                return Some(("must-number".into(), format!("[{locale_id}] {text:?} denotes the number {v} but was not stored as a number")));
            }
            if !close(obs.1, v) {
                return Some(("value".into(), format!("[{locale_id}] {text:?} denotes {v} but was stored as {}", obs.1)));
            }
            if !kind_ok(kind, &obs.2, &l) {
                return Some(("format-kind".into(), format!("[{locale_id}] {text:?} is {kind} input but got format {:?}", obs.2)));
            }
        }
        Verdict::MustNot => {
            st.count("must_not");
            st.shape(format!("mustnot:{}", crate::util::erase_digits(text)));
            if obs.0 {
                return Some(("must-not-number".into(), format!("[{locale_id}] {text:?} is not a number but was stored as {}", obs.1)));
            }
        }
        Verdict::DontCare(v) => {
            st.count("dont_care");
            if let (true, Some(v)) = (obs.0, v) {
                if !close(obs.1, v) {
                    return Some(("value".into(), format!("[{locale_id}] {text:?} was accepted as a number but stored as {} instead of {v}", obs.1)));
                }
            }
        }
    }
    None
}

fn sig_of(check: &str, text: &str, locale_id: &str) -> String {
    // shape of the text: digits erased, currency symbols unified
    let shape = crate::util::erase_digits(text).replace(['€', '£'], "$");
    format!("{check}|{locale_id}|{shape}")
}

fn alphabet(locale_id: &str) -> Vec<char> {
    let l = loc_of(locale_id);
    let mut a: Vec<char> = "019.,-+eE%/ ".chars().collect();
    a.extend(l.currency.chars().take(1));
    if !a.contains(&'$') {
        a.push('$');
    }
    a.sort_unstable();
    a.dedup();
    a
}

fn run(ctx: &Ctx) -> Stats {
    let maxlen = if ctx.quick() { 4 } else { 5 };
    let seed = ctx.seed;
    let mut total = crate::par::run_cases(LOCALES.len() as u64 * 16, ctx.threads, Duration::from_secs(if ctx.quick() { 120 } else { 1500 }), |i, st| {
        let locale_id = LOCALES[(i / 16) as usize];
        let part = i % 16;
        let alpha = alphabet(locale_id);
        let mut model = match Model::new_empty("n", locale_id, "UTC", "en") {
            Ok(m) => m,
            Err(_) => return,
        };
        // bounded-exhaustive: all strings up to maxlen, split in 16 parts by index
        let n = alpha.len();
        let mut idx: u64 = 0;
        for len in 1..=maxlen {
            let count = (n as u64).pow(len as u32);
            for k in 0..count {
                idx += 1;
                if idx % 16 != part {
                    continue;
                }
                let mut s = String::new();
                let mut kk = k;
                for _ in 0..len {
                    s.push(alpha[(kk % n as u64) as usize]);
                    kk /= n as u64;
                }
                if s.starts_with('=') {
                    continue;
                }
                if let Some((check, detail)) = check(&mut model, &s, locale_id, st) {
                    st.violation(&check, sig_of(&check, &s, locale_id), detail, json!({"text": s, "locale": locale_id}));
                    if st.violations.len() > 200 {
                        return;
                    }
                }
            }
        }
        // random longer near-numbers
        let mut rng = crate::util::rng_for(seed, 19, i);
        for _ in 0..(if maxlen == 4 { 1500 } else { 40_000 }) {
            let len = rng.gen_range(5..=12);
            let s: String = (0..len)
                .map(|_| if rng.gen_bool(0.6) { *crate::util::pick(&mut rng, &['0', '1', '2', '5', '9']) } else { *crate::util::pick(&mut rng, &alpha) })
                .collect();
            if let Some((check, detail)) = check(&mut model, &s, locale_id, st) {
                st.violation(&check, sig_of(&check, &s, locale_id), detail, json!({"text": s, "locale": locale_id}));
            }
        }
        // ISO dates
        for _ in 0..200 {
            let (y, m, d) = (rng.gen_range(1900..=9999), rng.gen_range(1..=12), rng.gen_range(1..=31));
            let s = format!("{y:04}-{m:02}-{d:02}");
            if let Some((check, detail)) = check(&mut model, &s, locale_id, st) {
                st.violation(&check, sig_of(&check, &s, locale_id), detail, json!({"text": s, "locale": locale_id}));
            }
        }
        if part == 0 {
            st.sample(json!({"locale": locale_id, "alphabet": alpha.iter().collect::<String>(), "max_length": maxlen,
                "examples": {"1,234": format!("{:?}", classify("1,234", locale_id)), "1,23": format!("{:?}", classify("1,23", locale_id)), "5%": format!("{:?}", classify("5%", locale_id))}}));
        }
    });
    total.extra.insert("exhaustive".into(), json!(true));
    total.extra.insert("exhaustive_scope".into(), json!(format!("all strings over the per-locale alphabet up to length {maxlen}, in 6 locales")));
    total
}

fn replay(_ctx: &Ctx, case: &Value) -> Vec<Violation> {
    let text = case.get("text").and_then(|t| t.as_str()).unwrap_or("");
    let locale_id = case.get("locale").and_then(|t| t.as_str()).unwrap_or("en").to_string();
    let mut st = Stats::default();
    let Ok(mut model) = Model::new_empty("n", &locale_id, "UTC", "en") else { return vec![] };
    match check(&mut model, text, &locale_id, &mut st) {
        Some((check, detail)) => vec![Violation { check: check.clone(), sig: sig_of(&check, text, &locale_id), detail, case: case.clone() }],
        None => vec![],
    }
}

pub fn props() -> Vec<PropInfo> {
    vec![PropInfo {
        id: "C19",
        level: "exploration",
        rule: "all strings up to length 4 (quick) / 5 (thorough) over {0 1 9 . , - + e E % / space, locale currency, $} in 6 locales, plus random near-numbers up to length 12 and random ISO dates; each typed into a freshly cleared cell of a real Model; shape key = (verdict class, format kind, digit-erased text)",
        assumptions: &[
            "MUST: optional '-', digits with correctly placed group separators, optional decimal part, optional exponent; alone, or followed by %, or with one leading/trailing currency symbol; ISO dates yyyy-mm-dd inside the supported range",
            "MUST-NOT: two decimal separators, misplaced group separator, group separator after the decimal, empty exponent, no mantissa, lone sign/separator/symbol, two % or two currency symbols, impossible ISO date",
            "DON'T CARE (only the value is checked when the engine does accept a number): spaces, leading '+', '.5', '5.', sign before the currency symbol, % or currency combined with an exponent, other date shapes, d-m(-y) digit groups",
        ],
        run,
        replay,
    }]
}
