//! C32 — defined names are stable under edits.
//! Oracle: before/after relations around one edit of a workbook whose formulas use defined
//! names: language/locale switches, renaming / moving / deleting OTHER sheets, both file
//! round trips, and renaming a name. Values of name-using formulas must not change and the
//! stored name formulas must be the expected ones.

use super::{Ctx, PropInfo};
use crate::evid::{Stats, Violation};
use crate::refeval::{engine_value, V};
use crate::util::{col_name, guarded, pick};
use ironcalc_base::Model;
use rand::Rng;
use serde::{Deserialize, Serialize};
use serde_json::{json, Value};
use std::collections::BTreeMap;
use std::time::Duration;

#[derive(Clone, Debug, Serialize, Deserialize)]
pub enum Edit {
    Language(String),
    Locale(String),
    RenameSheet(u32, String),
    MoveSheet(u32, u32),
    DeleteSheet(u32),
    Bytes,
    Xlsx,
    RenameName(String, String),
}

#[derive(Clone, Debug, Serialize, Deserialize)]
pub struct Case {
    /// (name, scope sheet index or none, formula)
    pub names: Vec<(String, Option<u32>, String)>,
    pub cells: Vec<(u32, i32, i32, String)>,
    pub edit: Edit,
}

const SHEETS: &[&str] = &["Sheet1", "Sheet2", "Data Sheet", "Spare"];

fn build(case: &Case) -> Option<Model<'static>> {
    let mut m = Model::new_empty("wb", "en", "UTC", "en").ok()?;
    for _ in 1..4 {
        m.new_sheet();
    }
    m.rename_sheet_by_index(2, "Data Sheet").ok()?;
    m.rename_sheet_by_index(3, "Spare").ok()?;
    for (s, r, c, t) in case.cells.iter().filter(|x| !x.3.starts_with('=')) {
        m.set_user_input(*s, *r, *c, t.clone()).ok()?;
    }
    for (n, scope, f) in &case.names {
        if let Err(e) = m.new_defined_name(n, *scope, f) {
            if std::env::var("VERIF_SHOW").is_ok() {
                eprintln!("name {n} refused: {e}");
            }
            return None;
        }
    }
    for (s, r, c, t) in case.cells.iter().filter(|x| x.3.starts_with('=')) {
        m.set_user_input(*s, *r, *c, t.clone()).ok()?;
    }
    m.evaluate();
    Some(m)
}

fn show(v: Result<V, crate::refeval::Unsupported>) -> String {
    match v {
        Ok(V::Num(x)) => format!("n:{:.11e}", if x == 0.0 { 0.0 } else { x }),
        Ok(v) => format!("{:?}", v),
        Err(_) => "unevaluated".into(),
    }
}

/// values keyed by permanent sheet id
fn values(m: &Model) -> BTreeMap<(u32, i32, i32), String> {
    let mut out = BTreeMap::new();
    for (si, ws) in m.workbook.worksheets.iter().enumerate() {
        for (r, row) in &ws.sheet_data {
            for c in row.keys() {
                out.insert((ws.sheet_id, *r, *c), show(engine_value(m, si as u32, *r, *c)));
            }
        }
    }
    out
}

/// (name lower-case, scope as permanent sheet id) -> stored formula
fn names(m: &Model) -> BTreeMap<(String, Option<u32>), String> {
    m.workbook.defined_names.iter().map(|d| ((d.name.to_lowercase(), d.sheet_id), d.formula.clone())).collect()
}

fn check(case: &Case, st: &mut Stats) -> Option<(String, String)> {
    let mut m = guarded(|| build(case)).ok()??;
    let (v0, n0) = (values(&m), names(&m));
    let sheet_names: Vec<String> = m.workbook.worksheets.iter().map(|w| w.get_name()).collect();
    let sheet_ids: Vec<u32> = m.workbook.worksheets.iter().map(|w| w.sheet_id).collect();
    let mut expected_names = n0.clone();
    let mut judged_cells: Vec<(u32, i32, i32)> = v0.keys().cloned().collect();
    let r = guarded(|| -> Result<(), String> {
        match &case.edit {
            Edit::Language(l) => m.set_language(l),
            Edit::Locale(l) => m.set_locale(l),
            Edit::RenameSheet(i, n) => m.rename_sheet_by_index(*i, n),
            Edit::MoveSheet(i, j) => m.move_sheet(*i, *j),
            Edit::DeleteSheet(i) => m.delete_sheet(*i),
            Edit::Bytes => {
                m = Model::from_bytes(&m.to_bytes(), "en")?;
                Ok(())
            }
            Edit::Xlsx => {
                let bytes = ironcalc::export::save_xlsx_to_writer(&m, std::io::Cursor::new(Vec::new())).map_err(|e| e.to_string())?.into_inner();
                let wb = ironcalc::import::load_from_xlsx_bytes(&bytes, "wb", "en", "UTC").map_err(|e| e.to_string())?;
                m = Model::from_workbook(wb, "en")?;
                Ok(())
            }
            Edit::RenameName(old, new) => {
                let (scope, formula) = m.workbook.defined_names.iter().find(|d| d.name.eq_ignore_ascii_case(old)).map(|d| (d.sheet_id, d.formula.clone())).ok_or("no such name")?;
                let scope_index = scope.and_then(|id| m.workbook.worksheets.iter().position(|w| w.sheet_id == id)).map(|x| x as u32);
                m.update_defined_name(old, scope_index, new, scope_index, &formula)
            }
        }
    });
    let mut kind = format!("{:?}", case.edit).split('(').next().unwrap_or("?").to_string();
    if let Edit::RenameName(old, _) = &case.edit {
        if case.names.iter().any(|n| n.0.eq_ignore_ascii_case(old) && n.2.to_uppercase().contains("LAMBDA")) {
            kind = "RenameName:lambda".into();
        }
    }
    match r {
        Err(p) => return Some((format!("panic|{kind}"), format!("{:?} panicked: {p}", case.edit))),
        Ok(Err(_)) => {
            st.count("edit_refused");
            return None;
        }
        Ok(Ok(())) => {}
    }
    m.evaluate();
    st.evaluations += 1;
    // expectations
    match &case.edit {
        Edit::RenameSheet(i, n) => {
            let old = &sheet_names[*i as usize];
            let quote = |s: &str| if s.chars().all(|c| c.is_ascii_alphanumeric()) && !s.chars().next().map(|c| c.is_ascii_digit()).unwrap_or(true) { s.to_string() } else { format!("'{}'", s.replace('\'', "''")) };
            for f in expected_names.values_mut() {
                *f = f.replace(&format!("{}!", quote(old)), &format!("{}!", quote(n)));
            }
        }
        Edit::DeleteSheet(i) => {
            // names scoped to, or reading, the deleted sheet are not judged; neither are cells that use them
            let id = sheet_ids[*i as usize];
            let gone = sheet_names[*i as usize].clone();
            expected_names.retain(|k, f| k.1 != Some(id) && !f.contains(&gone));
            judged_cells.retain(|k| k.0 != id);
            // formulas that read the deleted sheet (directly or through a name over it) legitimately change
            let touched: Vec<String> = n0.iter().filter(|(_, f)| f.contains(&gone)).map(|(k, _)| k.0.clone()).collect();
            let texts: BTreeMap<(u32, i32, i32), String> = case.cells.iter().map(|x| ((sheet_ids[x.0 as usize], x.1, x.2), x.3.to_lowercase())).collect();
            judged_cells.retain(|k| texts.get(k).map(|t| !t.contains(&gone.to_lowercase()) && !touched.iter().any(|n| t.contains(n))).unwrap_or(true));
        }
        Edit::RenameName(old, new) => {
            let keys: Vec<_> = expected_names.keys().filter(|k| k.0 == old.to_lowercase()).cloned().collect();
            for k in keys {
                if let Some(f) = expected_names.remove(&k) {
                    expected_names.insert((new.to_lowercase(), k.1), f);
                }
            }
        }
        _ => {}
    }
    let n1 = names(&m);
    for (k, want) in &expected_names {
        let got = n1.get(k);
        // xlsx may legitimately re-print a formula; compare without spaces and quotes of plain names
        let norm = |s: &String| s.replace([' ', '\''], "").trim_start_matches('=').to_lowercase();
        if got.map(norm) != Some(norm(want)) {
            return Some((format!("name|{kind}"), format!("defined name {:?} should be stored as {want:?} after {:?}, is {:?}", k, case.edit, got)));
        }
    }
    if !matches!(case.edit, Edit::DeleteSheet(_)) && n1.len() != expected_names.len() {
        return Some((format!("name-count|{kind}"), format!("{} defined names before, {} after {:?}", expected_names.len(), n1.len(), case.edit)));
    }
    let v1 = values(&m);
    // sheet ids are re-assigned by the xlsx import in order: map by position
    let id_map: BTreeMap<u32, u32> = if matches!(case.edit, Edit::Xlsx) { sheet_ids.iter().cloned().zip(m.workbook.worksheets.iter().map(|w| w.sheet_id)).collect() } else { sheet_ids.iter().map(|i| (*i, *i)).collect() };
    for k in &judged_cells {
        let k1 = (*id_map.get(&k.0).unwrap_or(&k.0), k.1, k.2);
        if v0.get(k) != v1.get(&k1) {
            return Some((format!("value|{kind}"), format!("cell (sheet id {}, R{}C{}) showed {:?}, after {:?} it shows {:?}", k.0, k.1, k.2, v0.get(k), case.edit, v1.get(&k1))));
        }
    }
    st.count("relations_held");
    None
}

fn gen(rng: &mut rand::rngs::StdRng) -> Case {
    let mut cells = vec![];
    for s in 0..3u32 {
        for r in 1..=3 {
            for c in 1..=2 {
                cells.push((s, r, c, format!("{}", (s as i32 + 1) * 100 + r * 10 + c)));
            }
        }
    }
    let q = |i: usize| if SHEETS[i].contains(' ') { format!("'{}'", SHEETS[i]) } else { SHEETS[i].to_string() };
    let mut names = vec![];
    // the engine accepts a single reference or range, or a LAMBDA, as the formula of a name
    let pool: Vec<(String, Option<u32>, String)> = vec![
        ("rate".into(), None, format!("{}!$A$1", q(rng.gen_range(0..3)))),
        ("block".into(), None, format!("{}!$A$1:$B$3", q(rng.gen_range(0..3)))),
        ("other".into(), None, format!("{}!$B$2", q(2))),
        ("local".into(), Some(rng.gen_range(0..3)), format!("{}!$B$3", q(rng.gen_range(0..3)))),
        ("dbl".into(), None, "=LAMBDA(x,x*2.5)".into()),
    ];
    for p in pool {
        if rng.gen_bool(0.6) {
            names.push(p);
        }
    }
    for (n, scope, _) in names.clone() {
        let s = scope.unwrap_or(rng.gen_range(0..3));
        let f = match n.as_str() {
            "block" => format!("=SUM({n})+COUNT({n})"),
            "dbl" => format!("={n}(A1)+{n}(4)"),
            _ => format!("={n}*2+{}{}", col_name(1), 1),
        };
        cells.push((s, rng.gen_range(5..=8), rng.gen_range(1..=4), f));
    }
    let edit = match rng.gen_range(0..9) {
        0 => Edit::Language((*pick(rng, &["es", "fr", "de", "it"])).to_string()),
        1 => Edit::Locale((*pick(rng, &["en-GB", "es", "fr", "de", "it"])).to_string()),
        2 | 3 => Edit::RenameSheet(rng.gen_range(0..4), (*pick(rng, &["Renamed", "New Name", "Año", "x'y", "A1"])).to_string()),
        4 => Edit::MoveSheet(rng.gen_range(0..4), rng.gen_range(0..4)),
        5 => Edit::DeleteSheet(rng.gen_range(1..4)),
        6 => Edit::Bytes,
        7 => Edit::Xlsx,
        _ => Edit::RenameName(names.first().map(|n| n.0.clone()).unwrap_or("rate".into()), (*pick(rng, &["renamed_name", "Tasa", "x1y", "RATE2"])).to_string()),
    };
    Case { names, cells, edit }
}

fn run(ctx: &Ctx) -> Stats {
    let n = ctx.n(12_000, 800_000);
    let seed = ctx.seed;
    crate::par::run_cases(n, ctx.threads, Duration::from_secs(if ctx.quick() { 80 } else { 1500 }), |i, st| {
        let mut rng = crate::util::rng_for(seed, 32, i);
        let case = gen(&mut rng);
        let kind = format!("{:?}", case.edit).split('(').next().unwrap_or("?").to_string();
        st.shape(format!("{kind}:{}", case.names.len()));
        if i < 2 {
            st.sample(serde_json::to_value(&case).unwrap_or(Value::Null));
        }
        if let Some((sig, detail)) = check(&case, st) {
            ctx.report(st, sig.split('|').next().unwrap_or("?"), format!("{sig}|"), detail, serde_json::to_value(&case).unwrap_or(Value::Null));
        }
    })
}

fn replay(_ctx: &Ctx, case: &Value) -> Vec<Violation> {
    let Ok(c) = serde_json::from_value::<Case>(case.clone()) else { return vec![] };
    let mut st = Stats::default();
    match check(&c, &mut st) {
        Some((sig, detail)) => vec![Violation { check: sig.split('|').next().unwrap_or("?").to_string(), sig: format!("{sig}|"), detail, case: case.clone() }],
        None => vec![],
    }
}

pub fn props() -> Vec<PropInfo> {
    vec![PropInfo {
        id: "C32",
        level: "exploration",
        rule: "four-sheet workbooks with a random subset of five defined names (workbook- and sheet-scoped single cells, a range, a LAMBDA) and formulas that use them, followed by one edit: language switch, locale switch, rename / move / delete of a sheet, to_bytes/from_bytes, xlsx export+import, or renaming a name; the stored name formulas must be the expected ones (unchanged, or with the renamed sheet / name) and every judged cell must show the same value; shape key = (edit, number of names)",
        assumptions: &["after deleting a sheet, names scoped to or reading that sheet and cells using them are not judged", "stored name formulas are compared ignoring spaces, quotes, a leading = and letter case"],
        run,
        replay,
    }]
}
