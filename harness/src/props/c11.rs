//! C11 — text inputs never crash the engine.
//! Oracle: panic hook + catch_unwind inside child processes; the parent classifies the
//! child's end (panic line, signal, non-zero exit) and bisects to the culprit input.

use super::{Ctx, PropInfo};
use crate::crash;
use crate::evid::{Stats, Violation};
use crate::fgen::{self, Dialect};
use crate::util::guarded;
use ironcalc_base::expressions::lexer::util::get_tokens_with_locale;
use ironcalc_base::expressions::parser::Parser;
use ironcalc_base::expressions::types::CellReferenceRC;
use ironcalc_base::{Model, UserModel};
use rand::rngs::StdRng;
use rand::Rng;
use serde_json::{json, Value};
use std::collections::HashMap;
use std::time::Duration;

#[derive(Debug, Clone)]
pub struct Case {
    pub class: String,
    pub text: String,
    pub number: f64,
    pub lang: &'static str,
    pub locale: &'static str,
}

fn random_unicode(rng: &mut StdRng, max: usize) -> String {
    let len = rng.gen_range(0..=max);
    (0..len)
        .map(|_| match rng.gen_range(0..12) {
            0 => '\u{0}',
            1 => char::from_u32(rng.gen_range(0x300..0x36f)).unwrap_or('a'),   // combining marks
            2 => char::from_u32(rng.gen_range(0x1F300..0x1F5FF)).unwrap_or('a'), // astral plane
            3 => char::from_u32(rng.gen_range(0x5d0..0x5ea)).unwrap_or('a'),   // RTL
            4 => *crate::util::pick(rng, &['"', '\'', '!', '#', '$', '%', '&', '(', ')', '{', '}', '[', ']', ':', ';', ',', '.', '=', '<', '>', '@', '^', '\\', '/']),
            5 => *crate::util::pick(rng, &['R', 'C', 'E', 'e', 'A', 'Z']),
            6 => char::from_u32(rng.gen_range(0x30..0x3a)).unwrap_or('1'),
            _ => char::from_u32(rng.gen_range(0x20..0x7f)).unwrap_or('a'),
        })
        .collect()
}

fn mutate(rng: &mut StdRng, s: &str) -> String {
    let mut chars: Vec<char> = s.chars().collect();
    for _ in 0..rng.gen_range(1..4) {
        if chars.is_empty() {
            break;
        }
        let i = rng.gen_range(0..chars.len());
        match rng.gen_range(0..7) {
            0 => {
                chars.remove(i);
            }
            1 => {
                let c = chars[i];
                chars.insert(i, c);
            }
            2 => {
                let j = rng.gen_range(0..chars.len());
                chars.swap(i, j);
            }
            3 => chars.insert(i, *crate::util::pick(rng, &['(', ')', '{', '}', '"', '\'', '[', ']', '!', ':', '#', '@', '%'])),
            4 => {
                let big = (*crate::util::pick(rng, &["99999999999", "1048577", "16385", "1e99999", "-2147483649", "R[99999999999]C[-99999999999]", "Table1[[#This Row],[x]]", "XFE1048577"])).to_string();
                for (k, ch) in big.chars().enumerate() {
                    chars.insert(i + k, ch);
                }
            }
            5 => chars.truncate(i),
            _ => chars[i] = char::from_u32(rng.gen_range(0x20..0x2ff)).unwrap_or('x'),
        }
    }
    chars.into_iter().collect()
}

const FORMATS: &[&str] = &[
    "general", "0", "0.00", "#,##0", "#,##0.00", "0%", "0.00%", "0.00E+00", "# ?/?", "# ??/??", "mm-dd-yy", "d-mmm-yy", "d-mmm", "mmm-yy",
    "h:mm AM/PM", "h:mm:ss AM/PM", "h:mm", "h:mm:ss", "m/d/yy h:mm", "#,##0 ;(#,##0)", "#,##0 ;[Red](#,##0)", "#,##0.00;(#,##0.00)",
    "#,##0.00;[Red](#,##0.00)", "mm:ss", "[h]:mm:ss", "mmss.0", "##0.0E+0", "@", "[$-409]d-mmm-yyyy", "_-* #,##0.00_-;\\-* #,##0.00_-;_-* \"-\"??_-;_-@_-",
    "[>1e3]0", "[<=2.5E+2]0.0;[=0]\"z\";0", "[>=100][Red]0;[<-1.5e-2]0.00", "[$\u{20ac}-407] #,##0.00", "0.0E-0", "0.00;[=-3e5]0", "[<>0]0.0e+0",
    "\"x\"0", "0;;;", "[>100]0;[<0]-0;0", "yyyy-mm-dd", "dddd, mmmm dd, yyyy", "[Blue]0", "0,", "0,,", "?/?", "0.0#####",
];

const NUMBERS: &[f64] = &[0.0, -0.0, 1e-300, -1e-300, 1e300, -1e300, 9007199254740993.0, 9007199254740991.0, 0.5, -2.5, 2958465.0, 2958466.0, -1.0, 1e15, 1e16, 44197.75, f64::NAN, f64::INFINITY, f64::NEG_INFINITY, f64::MIN_POSITIVE, f64::MAX];

pub fn case_for(tier: &str, seed: u64, idx: u64) -> Case {
    let mut rng = crate::util::rng_for(seed, 11, idx);
    let (lang, locale) = {
        let l = fgen::LANGS[(idx % 5) as usize];
        let loc = fgen::LOCALES[((idx / 5) % 6) as usize];
        (l, loc)
    };
    let deep_max = if tier == "quick" { 12 } else { 16 };
    let kind = idx % 10;
    let (class, text, number) = match kind {
        0 => ("random".to_string(), random_unicode(&mut rng, 64), 0.0),
        // every built-in function with extreme arguments, and overflowing arithmetic
        1 if idx % 40 == 1 => {
            let t = if rng.gen_bool(0.8) { super::c08::extreme_call(&mut rng) } else { super::c08::overflow_formula(&mut rng) };
            ("extreme-call".to_string(), t, 0.0)
        }
        1 => ("random".to_string(), random_unicode(&mut rng, 64), 0.0),
        2 | 3 | 4 => {
            let d = Dialect::new(lang, locale);
            let tree = fgen::random_tree(&mut rng, 3);
            ("mutated-formula".to_string(), mutate(&mut rng, &fgen::print(&tree, &d)), 0.0)
        }
        5 | 6 => {
            let f = *crate::util::pick(&mut rng, FORMATS);
            let f = if rng.gen_bool(0.7) { mutate(&mut rng, f) } else { f.to_string() };
            ("format".to_string(), f, *crate::util::pick(&mut rng, NUMBERS))
        }
        7 => ("cursor".to_string(), { let d = Dialect::new(lang, locale); let t = fgen::random_tree(&mut rng, 2); let s: String = fgen::print(&t, &d).chars().take(24).collect(); if rng.gen_bool(0.5) { mutate(&mut rng, &s) } else { s } }, 0.0),
        8 => {
            // nesting series
            let level = (idx / 10) % deep_max;
            let depth = [1usize, 10, 50, 100, 200, 400, 800, 1500, 3000, 6000, 12000, 25000, 50000, 100000, 200000, 400000][level as usize];
            let what = (idx / 10 / deep_max) % 5;
            let (open, close, name) = [("(", ")", "paren"), ("-", "", "minus"), ("{", "}", "brace"), ("SUM(", ")", "call"), ("1+(", ")", "binary")][what as usize];
            let t = format!("{}1{}", open.repeat(depth), close.repeat(depth));
            (format!("deep-{name}-{depth}"), t, 0.0)
        }
        _ => ("random-long".to_string(), random_unicode(&mut rng, 400), 0.0),
    };
    // English names and separators are what the generator of this class prints
    let (lang, locale) = if class == "extreme-call" { ("en", "en") } else { (lang, locale) };
    Case { class, text, number, lang, locale }
}

fn sheets() -> Vec<String> {
    fgen::SHEETS.iter().map(|s| s.to_string()).collect()
}

/// Execute every API of the property on the case. Returns Err(api + panic site) on panic.
pub fn exercise(c: &Case) -> Result<(), (String, String)> {
    let d = Dialect::new(c.lang, c.locale);
    let cell = CellReferenceRC { sheet: "Sheet1".into(), row: 2, column: 2 };
    let run = |api: &str, f: &mut dyn FnMut()| -> Result<(), (String, String)> {
        let t0 = std::time::Instant::now();
        let r = guarded(f).map_err(|p| (api.to_string(), p));
        if t0.elapsed().as_secs() >= 2 && std::env::var("VERIF_TRACE_SLOW").is_ok() {
            eprintln!("slow: {api} took {:.1}s on {:?}", t0.elapsed().as_secs_f64(), c.text.chars().take(80).collect::<String>());
        }
        r
    };
    if c.class == "format" {
        run("format_number", &mut || {
            let _ = ironcalc_base::number_format::format_number(c.number, &c.text, c.locale);
        })?;
        // every prefix of the code: a format string cut off at any point must not crash either
        let chars: Vec<char> = c.text.chars().collect();
        if chars.len() <= 48 {
            for k in 0..chars.len() {
                let prefix: String = chars[..k].iter().collect();
                run("format_number(prefix)", &mut || {
                    let _ = ironcalc_base::number_format::format_number(c.number, &prefix, c.locale);
                    let _ = ironcalc_base::number_format::format_number(1234.5, &prefix, c.locale);
                })?;
            }
        }
        // the same code through the TEXT function
        if let Ok(mut model) = Model::new_empty("c", c.locale, "UTC", "en") {
            let quoted = c.text.replace('"', "\"\"");
            let sep = if matches!(c.locale, "en" | "en-GB") { ',' } else { ';' };
            run("TEXT(value, code)", &mut || {
                let _ = model.set_user_input(0, 1, 1, format!("=TEXT(1234.5{sep}\"{quoted}\")"));
                model.evaluate();
            })?;
        }
        return Ok(());
    }
    let body = c.text.strip_prefix('=').unwrap_or(&c.text).to_string();
    run("lexer", &mut || {
        let _ = get_tokens_with_locale(&body, d.locale, d.language);
    })?;
    run("parser", &mut || {
        let mut p = Parser::new(sheets(), vec![], HashMap::new(), d.locale, d.language);
        let _ = p.parse(&body, &cell);
    })?;
    // A whole-column/row range several lines wide in array context makes the evaluator build
    // an array of hundreds of millions of elements: that is a (legitimate) slow evaluation,
    // not this property's subject, so such inputs are entered but not evaluated.
    let huge = {
        let mut p = Parser::new(sheets(), vec![], HashMap::new(), d.locale, d.language);
        let node = p.parse(&body, &cell);
        let mut big = false;
        crate::nodeutil::walk(&node, &mut |x| {
            if let ironcalc_base::expressions::parser::Node::RangeKind { row1, row2, column1, column2, absolute_row1, absolute_row2, absolute_column1, absolute_column2, .. } = x {
                let rows = (*row2 - *row1).abs() as i64 + if absolute_row1 == absolute_row2 { 1 } else { 1_000_000 };
                let cols = (*column2 - *column1).abs() as i64 + if absolute_column1 == absolute_column2 { 1 } else { 16_000 };
                if rows * cols > 2_000_000 {
                    big = true;
                }
            }
        });
        // the engine also evaluates some texts the public parser rejects (it falls back to other
        // parse modes), so whole-column / whole-row range look-alikes are detected on the text too
        let chars: Vec<char> = body.chars().collect();
        for (i, ch) in chars.iter().enumerate() {
            if *ch != ':' {
                continue;
            }
            let left: String = chars[..i].iter().rev().take_while(|c| c.is_ascii_alphanumeric() || **c == '$').collect();
            let right: String = chars[i + 1..].iter().take_while(|c| c.is_ascii_alphanumeric() || **c == '$').collect();
            let letters = |s: &str| !s.is_empty() && s.chars().all(|c| c.is_ascii_alphabetic() || c == '$');
            let digits = |s: &str| !s.is_empty() && s.chars().all(|c| c.is_ascii_digit() || c == '$');
            if (letters(&left) && letters(&right)) || (digits(&left) && digits(&right)) {
                big = true;
            }
        }
        big
    };
    let Ok(mut model) = Model::new_empty("c", c.locale, "UTC", c.lang) else { return Ok(()) };
    run("Model::set_user_input(formula)", &mut || {
        let _ = model.set_user_input(0, 2, 2, format!("={body}"));
    })?;
    run("Model::set_user_input(text)", &mut || {
        let _ = model.set_user_input(0, 3, 2, c.text.clone());
    })?;
    if !huge {
        run("Model::evaluate", &mut || model.evaluate())?;
    }
    let Ok(mut um) = UserModel::new_empty("c", c.locale, "UTC", c.lang) else { return Ok(()) };
    if huge {
        um.pause_evaluation();
    }
    run("UserModel::set_user_input", &mut || {
        let _ = um.set_user_input(0, 2, 2, &format!("={body}"));
        let _ = um.set_user_input(0, 3, 2, &c.text);
    })?;
    let n = c.text.chars().count();
    let cursors: Vec<usize> = if n <= 24 { (0..=n + 1).collect() } else { vec![0, 1, n / 2, n, n + 1] };
    for &a in &cursors {
        run("formula_completion", &mut || {
            let _ = um.formula_completion(0, 2, 2, &c.text, a);
        })?;
        for &b in &cursors {
            if b < a || (n > 24 && b != a) {
                continue;
            }
            run("cycle_reference", &mut || {
                let _ = um.cycle_reference(&c.text, a, b);
            })?;
        }
    }
    Ok(())
}

/// child side: run cases [from, to) and print one JSON line per panic plus a summary
pub fn child_main(tier: &str, seed: u64, from: u64, to: u64) {
    let tier = tier.to_string();
    if std::env::var("VERIF_SHOW").is_ok() {
        // debugging aid: print the cases instead of running them
        for i in from..to {
            let c = case_for(&tier, seed, i);
            let d = Dialect::new(c.lang, c.locale);
            let mut p = Parser::new(sheets(), vec![], HashMap::new(), d.locale, d.language);
            let node = p.parse(c.text.strip_prefix('=').unwrap_or(&c.text), &CellReferenceRC { sheet: "Sheet1".into(), row: 2, column: 2 });
            println!("{}", json!({"i": i, "class": c.class, "text": c.text, "number": c.number, "language": c.lang, "locale": c.locale, "tree": format!("{:?}", node).chars().take(600).collect::<String>()}));
        }
        return;
    }
    let r = crash::on_main_sized_stack(move || {
        let mut classes = std::collections::BTreeMap::<String, u64>::new();
        for i in from..to {
            let c = case_for(&tier, seed, i);
            *classes.entry(c.class.split('-').take(2).collect::<Vec<_>>().join("-")).or_insert(0) += 1;
            if let Err((api, p)) = exercise(&c) {
                println!("{}", json!({"i": i, "api": api, "panic": p, "class": c.class}));
            }
        }
        println!("{}", json!({"done": to - from, "classes": classes}));
    });
    if r.is_none() {
        std::process::exit(101);
    }
}

fn sig_for(api: &str, class: &str, site: &str) -> String {
    // class without the numeric depth: deep-paren-25000 -> deep-paren
    let cls: String = class.split('-').take(2).collect::<Vec<_>>().join("-");
    format!("crash|{cls}|{api}@{site}")
}

fn run(ctx: &Ctx) -> Stats {
    let total = ctx.n(400_000, 20_000_000);
    let batch = 1500u64;
    let nb = (total + batch - 1) / batch;
    let tier = ctx.tier.clone();
    let seed = ctx.seed;
    crate::par::run_cases(nb, ctx.threads, Duration::from_secs(if ctx.quick() { 150 } else { 1500 }), |b, st| {
        let (from, to) = (b * batch, ((b + 1) * batch).min(total));
        let (lines, culprits) = crash::run_range("C11", &tier, seed, from, to, Duration::from_secs(120), Duration::from_secs(30));
        for l in &lines {
            if let Some(n) = l.get("done").and_then(|d| d.as_u64()) {
                st.evaluations += n;
                if let Some(cl) = l.get("classes").and_then(|c| c.as_object()) {
                    for (k, v) in cl {
                        st.add(&format!("class.{k}"), v.as_u64().unwrap_or(0));
                        st.shape(format!("class:{k}"));
                    }
                }
            } else if let Some(i) = l.get("i").and_then(|i| i.as_u64()) {
                let c = case_for(&tier, seed, i);
                let api = l.get("api").and_then(|a| a.as_str()).unwrap_or("?");
                let p = l.get("panic").and_then(|a| a.as_str()).unwrap_or("?");
                ctx.report(st, "panic", sig_for(api, &c.class, &crate::util::panic_site(p)), format!("{api} panicked on {:?} [{} / {}]: {p}", c.text.chars().take(120).collect::<String>(), c.lang, c.locale), json!({"tier": tier, "seed": seed, "index": i}));
            }
        }
        for cu in culprits {
            let c = case_for(&tier, seed, cu.index);
            if cu.timed_out {
                st.inconclusive += 1;
                st.notes.push(format!("case {} ({}) gave no result within the single-case watchdog", cu.index, c.class));
                continue;
            }
            ctx.report(
                st,
                "abort",
                sig_for("process", &c.class, "abort"),
                format!("the process died ({}) on input class {} ({} chars) [{} / {}]: {:?}…", cu.how, c.class, c.text.chars().count(), c.lang, c.locale, c.text.chars().take(40).collect::<String>()),
                json!({"tier": tier, "seed": seed, "index": cu.index}),
            );
        }
        if b == 0 {
            for i in 0..4 {
                let c = case_for(&tier, seed, i * 3 + 2);
                st.sample(json!({"class": c.class, "text": c.text.chars().take(60).collect::<String>(), "language": c.lang, "locale": c.locale}));
            }
        }
    })
}

fn replay(_ctx: &Ctx, case: &Value) -> Vec<Violation> {
    // committed findings spell the input out, so they do not depend on the generator's stream
    if let Some(text) = case.get("text").and_then(|t| t.as_str()) {
        let class = case.get("class").and_then(|t| t.as_str()).unwrap_or("extreme-call").to_string();
        let c = Case { class: class.clone(), text: text.to_string(), number: 0.0, lang: "en", locale: "en" };
        return match exercise(&c) {
            Err((api, p)) => vec![Violation { check: "panic".into(), sig: sig_for(&api, &class, &crate::util::panic_site(&p)), detail: format!("{api} panicked on {text:?}: {p}"), case: case.clone() }],
            Ok(()) => vec![],
        };
    }
    let tier = case.get("tier").and_then(|t| t.as_str()).unwrap_or("quick").to_string();
    let seed = case.get("seed").and_then(|t| t.as_u64()).unwrap_or(0);
    let i = case.get("index").and_then(|t| t.as_u64()).unwrap_or(0);
    let c = case_for(&tier, seed, i);
    let (lines, culprits) = crash::run_range("C11", &tier, seed, i, i + 1, Duration::from_secs(60), Duration::from_secs(60));
    let mut out = vec![];
    for l in &lines {
        if l.get("i").is_some() {
            let api = l.get("api").and_then(|a| a.as_str()).unwrap_or("?");
            let p = l.get("panic").and_then(|a| a.as_str()).unwrap_or("?");
            out.push(Violation { check: "panic".into(), sig: sig_for(api, &c.class, &crate::util::panic_site(p)), detail: format!("{api} panicked: {p}"), case: case.clone() });
        }
    }
    for cu in culprits {
        if !cu.timed_out {
            out.push(Violation { check: "abort".into(), sig: sig_for("process", &c.class, "abort"), detail: format!("the process died ({}) on input class {}", cu.how, c.class), case: case.clone() });
        }
    }
    out
}

pub fn props() -> Vec<PropInfo> {
    vec![PropInfo {
        id: "C11",
        level: "exploration",
        rule: "indexed, seeded inputs executed in child processes on an 8 MiB stack: random Unicode (NUL, combining, astral, RTL), formulas printed by the harness and mutated at character level (dropped/duplicated/swapped characters, stray brackets/quotes, huge coordinates, structured-reference fragments), mutated number-format codes x extreme numbers incl. NaN/inf, every cursor/selection of short texts, nesting series 1..100000 (quick) of ( - { SUM( 1+( ; every case goes through lexer, parser, Model and UserModel input, formula_completion, cycle_reference or format_number in 30 language/locale pairs; shape key = input class",
        assumptions: &[
            "a case whose child gives no result within the single-case watchdog is inconclusive, not a violation",
            "the child runs on an 8 MiB stack (what a main thread has)",
        ],
        run,
        replay,
    }]
}
