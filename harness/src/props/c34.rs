//! C34 — F4 reference cycling has period four and touches only `$` markers.

use super::{Ctx, PropInfo};
use crate::evid::{Stats, Violation};
use crate::nodeutil::{contains_parse_error, reference_targets};
use crate::util::guarded;
use ironcalc_base::expressions::parser::Parser;
use ironcalc_base::expressions::types::CellReferenceRC;
use ironcalc_base::language::get_language;
use ironcalc_base::locale::get_locale;
use ironcalc_base::Model;
use rand::rngs::StdRng;
use rand::Rng;
use serde_json::{json, Value};
use std::collections::HashMap;
use std::time::Duration;

const PAIRS: &[(&str, &str)] = &[("en", "en"), ("de", "de"), ("es", "es"), ("fr", "fr"), ("it", "it"), ("en", "en-GB")];

/// Text with `$` removed and letters upper-cased outside string literals.
fn normalise(s: &str) -> String {
    let mut out = String::new();
    let mut in_str = false;
    for ch in s.chars() {
        if ch == '"' {
            in_str = !in_str;
            out.push(ch);
        } else if in_str {
            out.push(ch);
        } else if ch != '$' {
            out.extend(ch.to_uppercase());
        }
    }
    out
}

fn targets(text: &str, lang: &str, loc: &str) -> Option<Vec<String>> {
    let locale = get_locale(loc).ok()?;
    let language = get_language(lang).ok()?;
    let mut p = Parser::new(
        vec!["Sheet1".into(), "My Sheet".into(), "Data".into()],
        vec![],
        HashMap::new(),
        locale,
        language,
    );
    let ctx = CellReferenceRC { sheet: "Sheet1".into(), row: 5, column: 5 };
    let body = text.strip_prefix('=').unwrap_or(text);
    let node = p.parse(body, &ctx);
    if contains_parse_error(&node) {
        return None;
    }
    Some(reference_targets(&node, &ctx))
}

/// Returns (check, detail) for the first violated clause.
fn check_one(model: &Model, text: &str, start: usize, end: usize, lang: &str, loc: &str, st: &mut Stats) -> Option<(String, String)> {
    let nchars = text.chars().count() as i32;
    let mut cur = text.to_string();
    let (mut s, mut e) = (start, end);
    let t0 = targets(text, lang, loc);
    for step in 1..=4 {
        st.evaluations += 1;
        let r = guarded(|| model.cycle_reference(&cur, s, e));
        let (next, ns, ne) = match r {
            Err(p) => return Some(("panic".into(), format!("cycle_reference({cur:?},{s},{e}) panicked: {p}"))),
            Ok(Err(_)) => {
                st.count("cycle_returned_err");
                return None; // an error result is allowed; nothing to compare
            }
            Ok(Ok(v)) => v,
        };
        if normalise(&next) != normalise(&cur) {
            return Some((
                "only-dollar".into(),
                format!("cycle {step} of {text:?} at ({start},{end}) [{lang}/{loc}]: {cur:?} -> {next:?} changes more than $ markers and case"),
            ));
        }
        let len = next.chars().count() as i32;
        if ns < 0 || ne < 0 || ns > len || ne > len || ns > ne {
            return Some((
                "cursor".into(),
                format!("cycle {step} of {text:?} at ({start},{end}) [{lang}/{loc}]: cursor ({ns},{ne}) out of bounds for {next:?} (len {len}, input len {nchars})"),
            ));
        }
        if let Some(t0) = &t0 {
            match targets(&next, lang, loc) {
                Some(t) if &t == t0 => {}
                other => {
                    return Some((
                        "same-cells".into(),
                        format!("cycle {step} of {text:?} at ({start},{end}) [{lang}/{loc}]: {next:?} refers to {:?}, original {:?}", other, t0),
                    ))
                }
            }
        }
        if next != cur {
            st.count("cycles_that_changed_text");
        }
        cur = next;
        s = ns as usize;
        e = ne as usize;
    }
    // period four: original text up to letter case
    if cur.to_uppercase() != text.to_uppercase() {
        return Some((
            "period-four".into(),
            format!("four cycles of {text:?} at ({start},{end}) [{lang}/{loc}] give {cur:?}"),
        ));
    }
    None
}

fn gen_ref(rng: &mut StdRng) -> String {
    let col = crate::util::col_name(*crate::util::pick(rng, &[1, 2, 26, 27, 703, 16384]));
    let row = *crate::util::pick(rng, &[1, 7, 10, 999, 1048576]);
    let (d1, d2) = (if rng.gen_bool(0.4) { "$" } else { "" }, if rng.gen_bool(0.4) { "$" } else { "" });
    let lower = rng.gen_bool(0.2);
    let sheet = match rng.gen_range(0..6) {
        0 => "Sheet1!",
        1 => "'My Sheet'!",
        2 => "Data!",
        _ => "",
    };
    let cell = format!("{d1}{col}{d2}{row}");
    let cell = if lower { cell.to_lowercase() } else { cell };
    format!("{sheet}{cell}")
}

fn gen_formula(rng: &mut StdRng, sep: &str) -> String {
    let mut parts = vec![];
    let n = rng.gen_range(1..=3);
    for _ in 0..n {
        let p = match rng.gen_range(0..9) {
            0 => format!("{}:{}", gen_ref(rng), gen_ref(rng).rsplit('!').next().unwrap_or("A1").to_string()),
            1 => format!("SUM({}{sep}{})", gen_ref(rng), gen_ref(rng)),
            2 => format!("{}:{}", crate::util::col_name(rng.gen_range(1..5)), crate::util::col_name(rng.gen_range(5..9))),
            3 => format!("{}:{}", rng.gen_range(1..5), rng.gen_range(5..9)),
            4 => "\"A1 and $B$2\"".to_string(),
            5 => format!(" {} ", gen_ref(rng)),
            6 => format!("${}:${}", crate::util::col_name(rng.gen_range(1..5)), crate::util::col_name(rng.gen_range(5..9))),
            _ => gen_ref(rng),
        };
        parts.push(p);
    }
    let op = *crate::util::pick(rng, &["+", "*", "&", "-", "="]);
    format!("={}", parts.join(op))
}

fn run(ctx: &Ctx) -> Stats {
    let n = ctx.n(1500, 60_000);
    let seed = ctx.seed;
    crate::par::run_cases(n, ctx.threads, Duration::from_secs(if ctx.quick() { 90 } else { 1200 }), |i, st| {
        let mut rng = crate::util::rng_for(seed, 34, i);
        let (lang, loc) = PAIRS[(i % PAIRS.len() as u64) as usize];
        let sep = if matches!(loc, "en" | "en-GB") { "," } else { ";" };
        let text = gen_formula(&mut rng, sep);
        let len = text.chars().count();
        if i < 4 {
            st.sample(json!({"formula": text, "language": lang, "locale": loc, "cursor_positions": len + 1}));
        }
        // all cursor positions; all selections for short texts, sampled otherwise
        let mut cases: Vec<(usize, usize)> = (0..=len).map(|p| (p, p)).collect();
        if len <= 24 {
            for a in 0..=len {
                for b in a + 1..=len {
                    cases.push((a, b));
                }
            }
        } else {
            for _ in 0..40 {
                let a = rng.gen_range(0..=len);
                let b = rng.gen_range(a..=len);
                cases.push((a, b));
            }
        }
        let Ok(model) = Model::new_empty("m", loc, "UTC", lang) else {
            return;
        };
        for (a, b) in cases {
            if let Some((check, detail)) = check_one(&model, &text, a, b, lang, loc, st) {
                st.violation(&check, format!("{check}|{lang}-{loc}|"), detail, json!({"text": text, "start": a, "end": b, "language": lang, "locale": loc}));
                return;
            }
        }
        st.shape(format!("{}:{}", lang, crate::util::erase_digits(&normalise(&text)).chars().filter(|c| !c.is_ascii_alphabetic()).collect::<String>()));
    })
}

fn replay(_ctx: &Ctx, case: &Value) -> Vec<Violation> {
    let text = case.get("text").and_then(|t| t.as_str()).unwrap_or("=A1");
    let a = case.get("start").and_then(|t| t.as_u64()).unwrap_or(0) as usize;
    let b = case.get("end").and_then(|t| t.as_u64()).unwrap_or(0) as usize;
    let lang = case.get("language").and_then(|t| t.as_str()).unwrap_or("en").to_string();
    let loc = case.get("locale").and_then(|t| t.as_str()).unwrap_or("en").to_string();
    let mut st = Stats::default();
    let Ok(model) = Model::new_empty("m", &loc, "UTC", &lang) else {
        return vec![];
    };
    match check_one(&model, text, a, b, &lang, &loc, &mut st) {
        Some((check, detail)) => vec![Violation { check: check.clone(), sig: format!("{check}|{lang}-{loc}|"), detail, case: case.clone() }],
        None => vec![],
    }
}

pub fn props() -> Vec<PropInfo> {
    vec![PropInfo {
        id: "C34",
        level: "exploration",
        rule: "random formulas with references/ranges (quoted, unquoted and no sheet prefix; row-only and column-only ranges; lower case; spaces; string literals with look-alikes) x every cursor position x every selection (texts up to 24 chars, 40 sampled selections beyond) x 6 language/locale pairs; each case runs four successive cycles; shape key = (language, punctuation skeleton of the formula)",
        assumptions: &[
            "an Err result of cycle_reference is allowed (counted); only Ok results are compared",
            "the 'same cells' clause is checked only when the original text parses without error in that language/locale",
        ],
        run,
        replay,
    }]
}
