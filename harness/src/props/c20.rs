//! C20 — number formats display correctly rounded values.
//! Oracle: an independent decimal-string formatter (no floats after the 15-digit reduction).

use super::{Ctx, PropInfo};
use crate::evid::{Stats, Violation};
use ironcalc_base::formatter::format::format_number;
use ironcalc_base::locale::get_locale;
use rand::rngs::StdRng;
use rand::Rng;
use serde_json::{json, Value};
use std::time::Duration;

const LOCALES: &[&str] = &["en", "en-GB", "de", "es", "fr", "it"];

/// |x| as (15 significant digits, decimal exponent of the first digit), or None for 0
fn digits15(x: f64) -> Option<(Vec<u8>, i32)> {
    if x == 0.0 || !x.is_finite() {
        return None;
    }
    let s = format!("{:.14e}", x.abs());
    let (mant, exp) = s.split_once('e')?;
    let digits: Vec<u8> = mant.bytes().filter(|b| b.is_ascii_digit()).map(|b| b - b'0').collect();
    Some((digits, exp.parse().ok()?))
}

/// Decimal number as digit vector with `point` = number of digits before the decimal point
/// (may be <= 0 for leading zeros or > len for trailing zeros).
#[derive(Clone, Debug)]
struct Dec {
    digits: Vec<u8>,
    point: i32,
}

impl Dec {
    fn from_f64(x: f64) -> Dec {
        match digits15(x) {
            None => Dec { digits: vec![], point: 0 },
            Some((d, e)) => Dec { digits: d, point: e + 1 },
        }
    }
    /// digit at decimal position p (p = 0 is the units digit, p = -1 the first decimal)
    fn at(&self, p: i32) -> u8 {
        let idx = self.point - 1 - p;
        if idx < 0 || idx as usize >= self.digits.len() {
            0
        } else {
            self.digits[idx as usize]
        }
    }
    /// is every digit below position p zero?
    fn zero_below(&self, p: i32) -> bool {
        let from = self.point - p; // index of digit at position p-1
        (from.max(0) as usize..self.digits.len()).all(|i| self.digits[i] == 0)
    }
    /// Round half away from zero to `d` decimals: returns (integer digits, fraction digits, was_tie)
    fn round(&self, d: usize) -> (Vec<u8>, Vec<u8>, bool) {
        let cut = -(d as i32); // keep positions >= cut
        let next = self.at(cut - 1);
        let tie = next == 5 && self.zero_below(cut - 1);
        let top = self.point.max(1);
        let mut all: Vec<u8> = (cut..top).rev().map(|p| self.at(p)).collect(); // most significant first
        if next >= 5 {
            let mut i = all.len();
            loop {
                if i == 0 {
                    all.insert(0, 1);
                    break;
                }
                i -= 1;
                if all[i] == 9 {
                    all[i] = 0;
                } else {
                    all[i] += 1;
                    break;
                }
            }
        }
        let n = all.len();
        let frac = all.split_off(n - d);
        let mut int = all;
        while int.len() > 1 && int[0] == 0 {
            int.remove(0);
        }
        (int, frac, tie)
    }
}

#[derive(Clone, Debug)]
pub struct Spec {
    prefix: String,   // literal text (unquoted form)
    int_kind: u8,     // 0: "0", 1: "#,##0", 2: "00", 3: "#"
    decimals: usize,  // number of '0' placeholders after the point
    percent: bool,
    sci: bool,        // mantissa "0" + decimals, exponent E+00
    suffix: String,
}

impl Spec {
    fn code_section(&self) -> String {
        let q = |s: &str| if s.is_empty() { String::new() } else { format!("\"{s}\"") };
        let int = match self.int_kind {
            0 => "0",
            1 => "#,##0",
            2 => "00",
            _ => "#",
        };
        let dec = if self.decimals > 0 { format!(".{}", "0".repeat(self.decimals)) } else { String::new() };
        let tail = if self.sci { "E+00" } else if self.percent { "%" } else { "" };
        format!("{}{}{}{}{}", q(&self.prefix), if self.sci { "0" } else { int }, dec, tail, q(&self.suffix))
    }
}

fn group(digits: &str, sep: &str) -> String {
    let n = digits.len();
    let mut out = String::new();
    for (i, ch) in digits.chars().enumerate() {
        out.push(ch);
        let left = n - 1 - i;
        if left > 0 && left % 3 == 0 {
            out.push_str(sep);
        }
    }
    out
}

/// Reference rendering of |x| under one section. Returns (text, tie, rounds_to_zero)
fn render_abs(x: f64, spec: &Spec, dsep: &str, gsep: &str) -> (String, bool, bool) {
    let mut dec = Dec::from_f64(x);
    let mut text = String::new();
    text.push_str(&spec.prefix);
    let mut tie = false;
    let zero;
    if spec.sci {
        // one integer digit; exponent of the first significant digit (after rounding the mantissa)
        let mut e = if dec.digits.is_empty() { 0 } else { dec.point - 1 };
        let mut m = Dec { digits: dec.digits.clone(), point: if dec.digits.is_empty() { 0 } else { 1 } };
        let (mut int, mut frac, t) = m.round(spec.decimals);
        tie = t;
        if int.len() > 1 {
            // 9.99 -> 10.0: renormalise
            e += 1;
            m = Dec { digits: { let mut v = int.clone(); v.extend(frac.iter()); v }, point: 1 };
            let r = m.round(spec.decimals);
            int = r.0;
            frac = r.1;
        }
        zero = int.iter().all(|d| *d == 0) && frac.iter().all(|d| *d == 0);
        if zero {
            e = 0;
        }
        text.push_str(&int.iter().map(|d| (b'0' + d) as char).collect::<String>());
        if spec.decimals > 0 {
            text.push_str(dsep);
            text.push_str(&frac.iter().map(|d| (b'0' + d) as char).collect::<String>());
        }
        text.push_str(&format!("E{}{:02}", if e < 0 { '-' } else { '+' }, e.abs()));
    } else {
        if spec.percent {
            dec.point += 2;
        }
        let (int, frac, t) = dec.round(spec.decimals);
        tie = t;
        zero = int.iter().all(|d| *d == 0) && frac.iter().all(|d| *d == 0);
        let mut int_s: String = int.iter().map(|d| (b'0' + d) as char).collect();
        let int_is_zero = int.iter().all(|d| *d == 0);
        match spec.int_kind {
            0 | 1 => {}
            2 => {
                while int_s.len() < 2 {
                    int_s.insert(0, '0');
                }
            }
            _ => {
                if int_is_zero {
                    int_s.clear();
                }
            }
        }
        if spec.int_kind == 1 {
            int_s = group(&int_s, gsep);
        }
        text.push_str(&int_s);
        if spec.decimals > 0 {
            text.push_str(dsep);
            text.push_str(&frac.iter().map(|d| (b'0' + d) as char).collect::<String>());
        }
        if spec.percent {
            text.push('%');
        }
    }
    text.push_str(&spec.suffix);
    (text, tie, zero)
}

pub struct Case {
    pub x: f64,
    pub code: String,
    pub locale: String,
    pub expected: String,
    pub tie: bool,
    pub skip: bool,
}

fn build_case(x: f64, pos: &Spec, neg: Option<&Spec>, locale_id: &str) -> Case {
    let l = get_locale(locale_id).expect("locale");
    let dsep = l.numbers.symbols.decimal.clone();
    let gsep = l.numbers.symbols.group.clone();
    let code = match neg {
        Some(n) => format!("{};{}", pos.code_section(), n.code_section()),
        None => pos.code_section(),
    };
    let (expected, tie, skip) = if x < 0.0 {
        match neg {
            Some(n) => {
                let (t, tie, _) = render_abs(x, n, &dsep, &gsep);
                (t, tie, false)
            }
            None => {
                let (t, tie, zero) = render_abs(x, pos, &dsep, &gsep);
                // a negative number that rounds to zero: "-0" or "0" is not fixed by the statement
                (format!("-{t}"), tie, zero)
            }
        }
    } else {
        let (t, tie, _) = render_abs(x, pos, &dsep, &gsep);
        (t, tie, false)
    };
    Case { x, code, locale: locale_id.to_string(), expected, tie, skip }
}

fn gen_spec(rng: &mut StdRng) -> Spec {
    let sci = rng.gen_bool(0.15);
    Spec {
        prefix: (*crate::util::pick(rng, &["", "", "", "x ", "$"])).to_string(),
        int_kind: if sci { 0 } else { rng.gen_range(0..4) },
        decimals: *crate::util::pick(rng, &[0, 0, 1, 2, 2, 3, 4, 6]),
        percent: !sci && rng.gen_bool(0.2),
        sci,
        suffix: (*crate::util::pick(rng, &["", "", "", " units", "!"])).to_string(),
    }
}

fn gen_value(rng: &mut StdRng, decimals: usize) -> f64 {
    let sign = if rng.gen_bool(0.3) { -1.0 } else { 1.0 };
    let v: f64 = match rng.gen_range(0..10) {
        0 => 0.0,
        1 => {
            // an exact decimal tie at the format's precision: k + 0.5 units of the last place
            let k = rng.gen_range(0..100_000u64);
            format!("{}e-{}", k * 10 + 5, decimals + 1).parse().unwrap_or(0.5)
        }
        2 => {
            // one ulp either side of a tie
            let k = rng.gen_range(0..100_000u64);
            let t: f64 = format!("{}e-{}", k * 10 + 5, decimals + 1).parse().unwrap_or(0.5);
            if rng.gen_bool(0.5) { f64::from_bits(t.to_bits() + 1) } else { f64::from_bits(t.to_bits().saturating_sub(1)) }
        }
        3 => (9_007_199_254_740_992u64 - rng.gen_range(0..4)) as f64,
        4 => 10f64.powi(rng.gen_range(-30..30)) * rng.gen_range(1.0..10.0),
        5 => rng.gen_range(0..2_000_000) as f64,
        6 => rng.gen_range(0.0..1.0),
        7 => rng.gen_range(0.0..100_000.0),
        8 => [
            0.1 + 0.2, 1.005, 2.675, 1234.5, 999.9995, 0.4, 0.05, 99.5, 9.995e10,
            // mantissas that round up to 10 in scientific formats, values that round up to the next power of ten
            9.996, 99960.0, 0.00099995, 9.5, 99.95, 0.995, 9.9999999, 0.0995, 999.5,
        ][rng.gen_range(0..18)],
        _ => rng.gen_range(0.0..1e9),
    };
    sign * v
}

fn check(c: &Case) -> Option<String> {
    let l = get_locale(&c.locale).ok()?;
    let r = crate::util::guarded(|| format_number(c.x, &c.code, l));
    match r {
        Err(p) => Some(format!("format_number({:e}, {:?}, {}) panicked: {p}", c.x, c.code, c.locale)),
        Ok(f) => {
            if f.error.is_some() || f.text != c.expected {
                Some(format!(
                    "format_number({:?}, {:?}, {}) = {:?} (error {:?}), reference {:?}{}",
                    c.x, c.code, c.locale, f.text, f.error, c.expected, if c.tie { " [exact tie]" } else { "" }
                ))
            } else {
                None
            }
        }
    }
}

fn class_of(c: &Case, pos: &Spec) -> String {
    let kind = if pos.sci { "sci" } else if pos.percent { "percent" } else { ["int0", "grouped", "int00", "hash"][pos.int_kind as usize] };
    // does the display reach beyond the 15th significant digit of the number?
    let int_digits = match digits15(c.x) {
        Some((_, e)) => (e + 1 + if pos.percent { 2 } else { 0 }).max(0),
        None => 0,
    };
    // (from 14 on: with a 16-17 digit number the order of "reduce to 15 digits", "scale by
    // 100" and "round" decides the last displayed digit, and the statement does not fix it)
    let long = !pos.sci && int_digits as usize + pos.decimals >= 14;
    if c.tie {
        format!("tie-{kind}")
    } else if long {
        format!("long-{kind}")
    } else {
        kind.to_string()
    }
}

fn run(ctx: &Ctx) -> Stats {
    let n = ctx.n(400, 40_000);
    let seed = ctx.seed;
    crate::par::run_cases(n, ctx.threads, Duration::from_secs(if ctx.quick() { 90 } else { 1200 }), |i, st| {
        let mut rng = crate::util::rng_for(seed, 20, i);
        for k in 0..500 {
            let pos = gen_spec(&mut rng);
            let neg = if rng.gen_bool(0.25) {
                let mut n = pos.clone();
                n.prefix = (*crate::util::pick(&mut rng, &["(", "neg "])).to_string();
                n.suffix = if n.prefix == "(" { ")".into() } else { String::new() };
                Some(n)
            } else {
                None
            };
            let mut x = gen_value(&mut rng, pos.decimals + if pos.percent { 2 } else { 0 });
            if pos.percent {
                // percent formats scale by 100: with at most 13 significant digits that
                // scaling is exact in decimal and harmless in binary, so the order of
                // "reduce to 15 digits" and "scale" cannot matter
                x = format!("{:.12e}", x).parse().unwrap_or(x);
            }
            let locale_id = LOCALES[rng.gen_range(0..LOCALES.len())];
            let c = build_case(x, &pos, neg.as_ref(), locale_id);
            if c.skip {
                st.count("skipped_negative_rounding_to_zero");
                continue;
            }
            st.evaluations += 1;
            let class = class_of(&c, &pos);
            if let Some(detail) = check(&c) {
                ctx.report(st, "format-text", format!("format-text|{class}|"), detail, json!({"x_bits": c.x.to_bits().to_string(), "x": c.x, "code": c.code, "locale": c.locale, "expected": c.expected, "tie": c.tie, "class": class}));
                if st.violations.len() > 30 {
                    return;
                }
            } else {
                st.shape(format!("{class}:{}:{}", c.code, c.locale));
                if i == 0 && k < 4 {
                    st.sample(json!({"x": c.x, "code": c.code, "locale": c.locale, "text": c.expected}));
                }
            }
        }
    })
}

fn replay(_ctx: &Ctx, case: &Value) -> Vec<Violation> {
    let x = case
        .get("x_bits")
        .and_then(|b| b.as_str())
        .and_then(|b| b.parse::<u64>().ok())
        .map(f64::from_bits)
        .or_else(|| case.get("x").and_then(|x| x.as_f64()))
        .unwrap_or(0.0);
    let c = Case {
        x,
        code: case.get("code").and_then(|c| c.as_str()).unwrap_or("0").to_string(),
        locale: case.get("locale").and_then(|c| c.as_str()).unwrap_or("en").to_string(),
        expected: case.get("expected").and_then(|c| c.as_str()).unwrap_or("").to_string(),
        tie: case.get("tie").and_then(|c| c.as_bool()).unwrap_or(false),
        skip: false,
    };
    match check(&c) {
        Some(detail) => vec![Violation {
            check: "format-text".into(),
            sig: format!(
                "format-text|{}|",
                case.get("class").and_then(|c| c.as_str()).unwrap_or(if c.tie { "tie" } else { "replay" })
            ),
            detail,
            case: case.clone(),
        }],
        None => vec![],
    }
}

pub fn props() -> Vec<PropInfo> {
    vec![PropInfo {
        id: "C20",
        level: "exploration",
        rule: "random (number, format, locale) triples: formats = optional quoted prefix/suffix x {0, #,##0, 00, #} x 0-6 decimal zeros x optional % or E+00, one or two sections; numbers = exact decimal ties at the format's precision, one ulp either side, integers near 2^53, 1e-30..1e30, negatives, zero; shape key = (class, format code, locale)",
        assumptions: &[
            "reference: |x| reduced to 15 significant digits (correctly rounded from the binary value), scaled by 100 per %, rounded half away from zero at the format's decimals, all in decimal-digit arithmetic",
            "a negative number that rounds to zero under a one-section format is not judged (\"-0\" versus \"0\" is not fixed by the statement)",
            "'?' placeholders, '#' decimals, trailing scaling commas, conditions, colours and text sections are outside the generated family",
        ],
        run,
        replay,
    }]
}
