//! C21 — date serial numbers and calendar dates correspond one-to-one.
//! Oracle: days-from-civil arithmetic written in the harness (independent of chrono),
//! anchored at serial 1 = 1899-12-31.

use super::{Ctx, PropInfo};
use crate::evid::{Stats, Violation};
use chrono::Datelike;
use ironcalc_base::formatter::dates::{date_to_serial_number, from_excel_date};
use ironcalc_base::formatter::format::format_number;
use ironcalc_base::locale::get_locale;
use ironcalc_base::Model;
use serde_json::{json, Value};
use std::time::Duration;

pub const MIN_SERIAL: i64 = 1;
pub const MAX_SERIAL: i64 = 2_958_465;

/// civil date of day z, counted from 1970-01-01 (proleptic Gregorian)
pub fn civil_from_days(z: i64) -> (i64, u32, u32) {
    let z = z + 719_468;
    let era = z.div_euclid(146_097);
    let doe = z.rem_euclid(146_097);
    let yoe = (doe - doe / 1_460 + doe / 36_524 - doe / 146_096) / 365;
    let y = yoe + era * 400;
    let doy = doe - (365 * yoe + yoe / 4 - yoe / 100);
    let mp = (5 * doy + 2) / 153;
    let d = (doy - (153 * mp + 2) / 5 + 1) as u32;
    let m = if mp < 10 { mp + 3 } else { mp - 9 } as u32;
    (if m <= 2 { y + 1 } else { y }, m, d)
}

/// serial 1 = 1899-12-31 = day -25568 from 1970-01-01
pub fn expected(serial: i64) -> (i64, u32, u32, u32) {
    let z = serial - 25_569;
    let (y, m, d) = civil_from_days(z);
    let weekday = ((z + 4).rem_euclid(7) + 1) as u32; // 1 = Sunday
    (y, m, d, weekday)
}

fn check_direct(serial: i64) -> Option<(String, String)> {
    let (y, m, d, _) = expected(serial);
    match from_excel_date(serial) {
        Ok(date) => {
            if (date.year() as i64, date.month(), date.day()) != (y, m, d) {
                return Some((
                    "from_excel_date".into(),
                    format!("serial {serial}: engine {date} expected {y:04}-{m:02}-{d:02}"),
                ));
            }
        }
        Err(e) => return Some(("from_excel_date".into(), format!("serial {serial}: Err({e})"))),
    }
    match date_to_serial_number(d, m, y as i32) {
        Ok(n) => {
            if n as i64 != serial {
                return Some((
                    "date_to_serial_number".into(),
                    format!("{y:04}-{m:02}-{d:02}: engine {n} expected {serial}"),
                ));
            }
        }
        Err(e) => {
            return Some((
                "date_to_serial_number".into(),
                format!("{y:04}-{m:02}-{d:02}: Err({e})"),
            ))
        }
    }
    None
}

fn check_format(serial: i64) -> Option<(String, String)> {
    let (y, m, d, _) = expected(serial);
    let locale = get_locale("en").ok()?;
    let f = format_number(serial as f64, "yyyy-mm-dd", locale);
    let want = format!("{y:04}-{m:02}-{d:02}");
    if f.text != want || f.error.is_some() {
        return Some((
            "format".into(),
            format!(
                "format_number({serial}, yyyy-mm-dd) = {:?} (error {:?}) expected {want}",
                f.text, f.error
            ),
        ));
    }
    None
}

/// Model-level check of a batch of serials: YEAR/MONTH/DAY/WEEKDAY/DATE and typed ISO dates
fn check_model(serials: &[i64]) -> Vec<(String, String)> {
    let mut out = vec![];
    let mut model = match Model::new_empty("d", "en", "UTC", "en") {
        Ok(m) => m,
        Err(e) => return vec![("model".into(), e)],
    };
    for (i, s) in serials.iter().enumerate() {
        let r = i as i32 + 1;
        let (y, m, d, _) = expected(*s);
        let _ = model.update_cell_with_number(0, r, 1, *s as f64);
        let _ = model.set_user_input(0, r, 2, format!("=YEAR(A{r})"));
        let _ = model.set_user_input(0, r, 3, format!("=MONTH(A{r})"));
        let _ = model.set_user_input(0, r, 4, format!("=DAY(A{r})"));
        let _ = model.set_user_input(0, r, 5, format!("=WEEKDAY(A{r})"));
        let _ = model.set_user_input(0, r, 6, format!("=DATE({y},{m},{d})"));
        let _ = model.set_user_input(0, r, 7, format!("{y:04}-{m:02}-{d:02}"));
    }
    model.evaluate();
    let num = |model: &Model, r: i32, c: i32| -> Result<f64, String> {
        match model.get_cell_value_by_index(0, r, c) {
            Ok(ironcalc_base::cell::CellValue::Number(n)) => Ok(n),
            other => Err(format!("{:?}", other)),
        }
    };
    for (i, s) in serials.iter().enumerate() {
        let r = i as i32 + 1;
        let (y, m, d, wd) = expected(*s);
        let wants = [
            ("YEAR", 2, y as f64),
            ("MONTH", 3, m as f64),
            ("DAY", 4, d as f64),
            ("WEEKDAY", 5, wd as f64),
            ("DATE", 6, *s as f64),
            ("typed-iso", 7, *s as f64),
        ];
        for (name, c, want) in wants {
            // typed ISO dates below year 1900 / first days are legitimately text in some engines;
            // the property covers the whole supported range, so they are checked too
            match num(&model, r, c) {
                Ok(v) if v == want => {}
                other => out.push((
                    name.to_string(),
                    format!("serial {s} ({y:04}-{m:02}-{d:02}): {name} gave {:?}, expected {want}", other),
                )),
            }
        }
    }
    out
}

fn boundary_serials() -> Vec<i64> {
    // first/last days of every month of every year, Feb 28/29, Mar 1, first and last 1000 serials
    let mut v: Vec<i64> = (MIN_SERIAL..MIN_SERIAL + 1000).collect();
    v.extend(MAX_SERIAL - 999..=MAX_SERIAL);
    let mut s = MIN_SERIAL;
    while s <= MAX_SERIAL {
        let (_, _, d, _) = expected(s);
        if d == 1 {
            v.push(s);
            if s > MIN_SERIAL {
                v.push(s - 1);
            }
            s += 27;
        } else {
            s += 1;
        }
    }
    v.sort_unstable();
    v.dedup();
    v
}

fn run(ctx: &Ctx) -> Stats {
    let quick = ctx.quick();
    // direct functions + format: exhaustive in both tiers (chunks of 20k serials)
    let chunk = 20_000i64;
    let nchunks = ((MAX_SERIAL - MIN_SERIAL + 1) + chunk - 1) / chunk;
    let mut st = crate::par::run_cases(nchunks as u64, ctx.threads, Duration::from_secs(600), |i, st| {
        let lo = MIN_SERIAL + i as i64 * chunk;
        let hi = (lo + chunk - 1).min(MAX_SERIAL);
        for s in lo..=hi {
            st.evaluations += 1;
            if let Some((check, detail)) = check_direct(s).or_else(|| check_format(s)) {
                st.violation(&check, format!("{check}|-|"), detail, json!({"serial": s}));
                if st.violations.len() > 3 {
                    return;
                }
            }
        }
        let (y, _, _, _) = expected(lo);
        st.shape(format!("direct:century-{}", y / 100));
        st.add("serials_checked_direct_and_format", (hi - lo + 1) as u64);
    });
    st.extra.insert("exhaustive".into(), json!(true));
    st.extra.insert(
        "exhaustive_scope".into(),
        json!("from_excel_date, date_to_serial_number and format_number(yyyy-mm-dd) over every serial 1..=2958465"),
    );
    // model-level: boundaries + random sample (quick) / every serial (thorough)
    let serials: Vec<i64> = if quick {
        let mut v = boundary_serials();
        let mut rng = crate::util::rng_for(ctx.seed, 21, 0);
        use rand::Rng;
        // keep quick bounded: a stride sample of the boundaries plus random serials
        let stride = (v.len() / 40_000).max(1);
        v = v.into_iter().step_by(stride).collect();
        for _ in 0..20_000 {
            v.push(rng.gen_range(MIN_SERIAL..=MAX_SERIAL));
        }
        v.sort_unstable();
        v.dedup();
        v
    } else {
        (MIN_SERIAL..=MAX_SERIAL).collect()
    };
    let batch = 4000usize;
    let nb = (serials.len() + batch - 1) / batch;
    let st2 = crate::par::run_cases(nb as u64, ctx.threads, Duration::from_secs(if quick { 120 } else { 1500 }), |i, st| {
        let lo = i as usize * batch;
        let hi = (lo + batch).min(serials.len());
        let part = &serials[lo..hi];
        st.evaluations += part.len() as u64 * 6;
        st.add("serials_checked_in_model", part.len() as u64);
        for (check, detail) in check_model(part).into_iter().take(3) {
            st.violation(&check, format!("{check}|-|"), detail, json!({"serials": [part[0], part[part.len() - 1]]}));
        }
        let (y, _, _, _) = expected(part[0]);
        st.shape(format!("model:century-{}", y / 100));
        if i == 0 {
            st.sample(json!({"serial": part[0], "expected_ymd_weekday": expected(part[0])}));
            st.sample(json!({"serial": part[part.len()-1], "expected_ymd_weekday": expected(part[part.len()-1])}));
        }
    });
    st.merge(st2);
    st
}

fn replay(_ctx: &Ctx, case: &Value) -> Vec<Violation> {
    let mut out = vec![];
    let mut serials = vec![];
    if let Some(s) = case.get("serial").and_then(|s| s.as_i64()) {
        serials.push(s);
    }
    if let Some(a) = case.get("serials").and_then(|s| s.as_array()) {
        if a.len() == 2 {
            let (lo, hi) = (a[0].as_i64().unwrap_or(1), a[1].as_i64().unwrap_or(1));
            serials.extend(lo..=hi.min(lo + 5000));
        }
    }
    for s in &serials {
        if let Some((check, detail)) = check_direct(*s).or_else(|| check_format(*s)) {
            out.push(Violation { check: check.clone(), sig: format!("{check}|-|"), detail, case: case.clone() });
        }
    }
    for (check, detail) in check_model(&serials).into_iter().take(5) {
        out.push(Violation { check: check.clone(), sig: format!("{check}|-|"), detail, case: case.clone() });
    }
    out
}

pub fn props() -> Vec<PropInfo> {
    vec![PropInfo {
        id: "C21",
        level: "exploration",
        rule: "every serial 1..=2958465 through from_excel_date, date_to_serial_number and format_number (exhaustive, both tiers); YEAR/MONTH/DAY/WEEKDAY/DATE and typed ISO dates in real Models over month/year boundaries plus a random sample (quick) or every serial (thorough); shape key = (leg, century)",
        assumptions: &[
            "reference: proleptic Gregorian days-from-civil arithmetic in the harness, serial 1 = 1899-12-31 (no phantom 1900-02-29), WEEKDAY default numbering 1 = Sunday",
        ],
        run,
        replay,
    }]
}
