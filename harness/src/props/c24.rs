//! C24 — xlsx export then import preserves the workbook.
//! Oracle: snapshot equality (on the facts the statement lists) between a model built
//! through the API and the model obtained by exporting it to xlsx and importing the file.

use super::{Ctx, PropInfo};
use crate::evid::{Stats, Violation};
use crate::ops::{self, GenCfg, Op};
use crate::snap::{self, Snap, SnapOpts};
use crate::util::guarded;
use crate::walk;
use ironcalc_base::{Model, UserModel};
use rand::Rng;
use serde_json::{json, Value};
use std::time::Duration;

/// facts the statement does not list (or that are arguments of the import call)
fn in_scope(k: &str) -> bool {
    !(k == "wb.name" || k == "wb.theme" || k.starts_with("wb.namedstyle."))
}

fn numeric_close(a: &str, b: &str) -> bool {
    match (a.parse::<f64>(), b.parse::<f64>()) {
        // widths and heights go through the file format's units (character widths, points)
        (Ok(x), Ok(y)) => (x - y).abs() <= 0.51,
        _ => false,
    }
}

fn compare(a: &Snap, b: &Snap) -> Vec<snap::DiffEntry> {
    snap::diff(a, b)
        .into_iter()
        .filter(|(k, x, y)| {
            if !in_scope(k) {
                return false;
            }
            if k.ends_with(".width") || k.ends_with(".height") {
                if let (Some(x), Some(y)) = (x, y) {
                    return !numeric_close(x, y);
                }
            }
            true
        })
        .collect()
}

pub fn round_trip(um: &UserModel) -> Result<Model<'static>, (String, String)> {
    let model = um.get_model();
    let bytes = guarded(|| ironcalc::export::save_xlsx_to_writer(model, std::io::Cursor::new(Vec::new())).map(|c| c.into_inner()))
        .map_err(|p| ("export-panic".to_string(), p))?
        .map_err(|e| ("export-error".to_string(), e.to_string()))?;
    let name = model.workbook.name.clone();
    let locale = model.workbook.settings.locale.clone();
    let tz = model.workbook.settings.tz.clone();
    let wb = guarded(|| ironcalc::import::load_from_xlsx_bytes(&bytes, &name, &locale, &tz))
        .map_err(|p| ("import-panic".to_string(), p))?
        .map_err(|e| ("import-error".to_string(), e.to_string()))?;
    let mut m2 = guarded(|| Model::from_workbook(wb, "en")).map_err(|p| ("model-panic".to_string(), p))?.map_err(|e| ("model-error".to_string(), e))?;
    guarded(|| m2.evaluate()).map_err(|p| ("evaluate-panic".to_string(), p))?;
    Ok(m2)
}

/// Returns (check, key, cats, detail)
fn check_ops(nsheets: u32, list: &[Op], st: &mut Stats) -> Option<(String, String, String, String)> {
    let mut um = ops::new_user_model(nsheets);
    let mut last = "-".to_string();
    for op in list {
        if guarded(|| ops::apply(&mut um, op)).is_err() {
            st.count("history_panicked");
            return None;
        }
        last = ops::kind(op);
    }
    let _ = guarded(|| um.evaluate());
    if !walk::walk_structure(&um.get_model().workbook).is_empty() {
        st.count("skipped_malformed_workbook");
        return None;
    }
    st.evaluations += 1;
    let s0 = snap::snapshot(&um, SnapOpts::FULL);
    match round_trip(&um) {
        Err((check, detail)) => Some((check.clone(), last, crate::util::erase_digits(&detail).chars().take(80).collect(), format!("{check}: {detail}"))),
        Ok(m2) => {
            let s1 = snap::snapshot_model(&m2, SnapOpts::FULL);
            let d = compare(&s0, &s1);
            if d.is_empty() {
                st.shape(format!("{}:{}", s0.len().min(60) / 6, s0.keys().map(|k| snap::category(k)).collect::<std::collections::BTreeSet<_>>().len()));
                for k in s0.keys() {
                    st.set_add("fact_categories_round_tripped", snap::category(k));
                }
                None
            } else {
                Some(("xlsx-diff".into(), "-".into(), snap::categories(&d).join(","), format!("after export+import (original -> imported): {}", snap::describe(&d, 6))))
            }
        }
    }
}

const TEXTS: &[&str] = &["a<b>&c", "\"quoted\"", "tab\there", "line\nbreak", "first\rsecond", "cr\r\nlf", "\r", "a\tb\rc", "_x000D_ literal", " lead and trail ", "emoji \u{1F600}", "rtl \u{5d0}\u{5d1}", "ctrl\u{1}\u{1f}", "'", "'=quoted formula look-alike","é ü ß", "\u{feff}bom", "]]>"];

fn run(ctx: &Ctx) -> Stats {
    let n = ctx.n(2500, 120_000);
    let seed = ctx.seed;
    crate::par::run_cases(n, ctx.threads, Duration::from_secs(if ctx.quick() { 100 } else { 1500 }), |i, st| {
        let mut rng = crate::util::rng_for(seed, 24, i);
        let clean = !ctx.avoid.is_empty() && i % 2 == 0;
        let avoid: Vec<&str> = if clean { ctx.avoid_alt(i / 2) } else { vec![] };
        let mut cfg = GenCfg::new(&avoid);
        cfg.edges = false;
        let nsheets = 1 + (i % 3) as u32;
        let mut um = ops::new_user_model(nsheets);
        let mut list = vec![];
        let len = rng.gen_range(3..30);
        for _ in 0..len {
            let op = if rng.gen_bool(0.12) {
                // strings with XML-special, control and whitespace-edge characters
                Op::Input(rng.gen_range(0..nsheets), rng.gen_range(1..9), rng.gen_range(1..7), (*crate::util::pick(&mut rng, TEXTS)).to_string())
            } else {
                ops::gen_op_avoiding(&mut rng, &um, &cfg)
            };
            if ops::op_features(&op).iter().any(|f| cfg.avoid.contains(*f)) {
                continue;
            }
            if matches!(op, Op::Undo | Op::Redo | Op::SetLocale(_) | Op::SetLanguage(_) | Op::SetTimezone(_)) {
                continue;
            }
            if guarded(|| ops::apply(&mut um, &op)).is_err() {
                return;
            }
            list.push(op);
        }
        if i < 2 {
            st.sample(json!({"nsheets": nsheets, "ops": list.iter().take(8).collect::<Vec<_>>(), "total": list.len()}));
        }
        if let Some((check, key, cats, detail)) = check_ops(nsheets, &list, st) {
            // shrink
            let mut small = list.clone();
            let mut j = small.len();
            let mut budget = 80;
            while j > 0 && budget > 0 {
                j -= 1;
                budget -= 1;
                let mut cand = small.clone();
                cand.remove(j);
                let mut scratch = Stats::default();
                if matches!(check_ops(nsheets, &cand, &mut scratch), Some((c2, _, cats2, _)) if c2 == check && cats2 == cats) {
                    small = cand;
                }
            }
            let mut scratch = Stats::default();
            let (key, detail) = check_ops(nsheets, &small, &mut scratch).map(|f| (f.1, f.3)).unwrap_or((key, detail));
            let sig = format!("{}{check}|{key}|{cats}", if clean { "cleanroom/" } else { "" });
            ctx.report(st, &check, sig, detail, json!({"nsheets": nsheets, "ops": small}));
        }
    })
}

fn replay(_ctx: &Ctx, case: &Value) -> Vec<Violation> {
    let nsheets = case.get("nsheets").and_then(|n| n.as_u64()).unwrap_or(1) as u32;
    let Ok(list) = serde_json::from_value::<Vec<Op>>(case.get("ops").cloned().unwrap_or(Value::Null)) else { return vec![] };
    let mut st = Stats::default();
    match check_ops(nsheets, &list, &mut st) {
        Some((check, key, cats, detail)) => vec![Violation { check: check.clone(), sig: format!("{check}|{key}|{cats}"), detail, case: case.clone() }],
        None => vec![],
    }
}

pub fn props() -> Vec<PropInfo> {
    vec![PropInfo {
        id: "C24",
        level: "exploration",
        rule: "workbooks built by random API histories (the history engine's generator: inputs of every shape, formulas, arrays, styles, borders, sizes, hidden flags, panes, grid lines, names, links, conditional formats, sheet operations) plus strings with XML-special, control, astral and whitespace-edge characters; each well-formed workbook is exported with save_xlsx_to_writer, imported with load_from_xlsx_bytes, evaluated and compared fact by fact; shape key = (size class, number of fact categories present)",
        assumptions: &[
            "compared facts: sheets (name, state, colour, order), cell contents, value types, values, formatted values, resolved styles, array structure, row heights, column widths (tolerance 0.51 px for the file format's units), hidden flags, frozen panes, grid lines, defined names, links, conditional formats; not compared: workbook name/locale/timezone (arguments of the import), theme, named styles, view state, metadata",
            "workbooks that the structure walker (C27) finds malformed are skipped (counted)",
        ],
        run,
        replay,
    }]
}
