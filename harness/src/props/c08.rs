//! C08 — no cell ever stores a non-finite number.
//! Oracle: after every evaluation, every cell of the model (plain, formula, array anchor,
//! spill) is scanned; a NaN or infinite number anywhere is a violation. Workloads: a sweep of
//! every built-in function with extreme arguments (scalar and array), overflowing arithmetic
//! in scalar / array / dynamic-array context, numbers typed by the user, numbers read from
//! xlsx files (exported model with the numbers patched in the XML) and from to_bytes.

use super::{Ctx, PropInfo};
use crate::evid::{Stats, Violation};
use crate::util::{guarded, pick};
use ironcalc_base::types::{Cell, FormulaValue, SpillValue};
use ironcalc_base::verif_hooks::all_functions;
use ironcalc_base::Model;
use rand::rngs::StdRng;
use rand::Rng;
use serde_json::{json, Value};
use std::time::Duration;

/// values for overflowing arithmetic (never used as a size or a count)
pub const EXTREMES: &[&str] = &[
    "1E+308", "-1E+308", "1.7976931348623157E+308", "1E-320", "-1E-320", "0", "-0", "1", "-1", "2", "0.5", "-0.5", "1E+15", "1E+16", "9007199254740993", "1E+100", "-1E+100",
    "170", "171", "709", "710", "-745", "1E+300*1E+300", "-(1E+300*1E+300)", "10^308", "10^309", "\"a\"", "TRUE", "A1", "A1:A3", "{1E+308,2}", "{1,-1E+308;0,1E+308}", "1/0",
];

/// arguments for the sweep over every function: magnitudes that cannot turn into a gigantic
/// size, count or loop bound (those make evaluation slow or exhaust memory, which is not what
/// this monitor decides), plus the thresholds where exp, factorial and powers overflow
pub const MODERATE: &[&str] = &[
    "0", "-0", "1", "-1", "2", "3", "0.5", "-0.5", "1E-320", "170", "171", "709", "710", "-745", "1000", "-1000", "\"a\"", "\"\"", "TRUE", "A3", "A3:A4", "{3,2}", "{1,-1;0,2}", "1/0",
];

/// calls that overflow by design
pub const CURATED: &[&str] = &[
    "EXP(710)", "EXP(1E+308)", "POWER(10,309)", "POWER(-10,309)", "POWER(1E+308,2)", "FACT(171)", "FACTDOUBLE(301)", "SINH(711)", "COSH(711)", "SINH(-711)", "10^309", "PRODUCT(1E+308,10)",
    "PRODUCT(A1:A3)", "SUM(1E+308,1E+308)", "SUM(A1,A1)", "SUMSQ(1E+200,1)", "SUMSQ(A1:A3)", "SUMPRODUCT(A1:A3,A1:A3)", "SUMX2PY2(A1:A3,A1:A3)", "SUMXMY2(A1:A2,{-1E+308;1E+308})", "SQRT(-1)", "LN(0)", "LOG(0)", "LOG10(0)", "LOG(-1,10)",
    "ATANH(1)", "ATANH(-1)", "ACOSH(0)", "ASIN(2)", "ACOS(-2)", "TAN(1E+308)", "COT(0)", "CSC(0)", "SEC(1E+308)", "MOD(1,0)", "MOD(1E+308,1E-320)", "QUOTIENT(1,0)", "QUOTIENT(1E+308,1E-320)", 
    "COMBIN(1000,500)", "COMBINA(1000,500)", "PERMUT(1000,500)", "MULTINOMIAL(100,100,100)", "SERIESSUM(10,300,10,{1,1,1})", "BESSELK(0,1)", "BESSELY(0,1)", "GAMMA(172)", "GAMMA(0)", "GAMMA(-1)", "GAMMALN(0)",
    "AVERAGE(1E+308,1E+308)", "AVERAGE(A1,A1)", "VAR.S(1E+308,-1E+308)", "STDEV.S(A1:A2)", "DEVSQ(A1:A2)", "GEOMEAN(1E+308,1E+308)", "HARMEAN(1E-320,1E-320)", "KURT(A1:A3,1)", "SKEW(A1:A3)", "FISHER(1)", "FISHERINV(1E+308)",
    "FV(1E+10,100,1)", "PV(-0.99,1000,1)", "NPV(-0.999,{1,1,1,1})", "EFFECT(1E+308,2)", "NOMINAL(1E+308,2)", "PMT(0,0,1)", "DOLLARDE(1,0)", "IMPOWER(\"1E+308+i\",2)", "IMEXP(\"710\")", "IMABS(\"1E+308+1E+308i\")",
    "COMPLEX(1E+308,1E+308)&\"\"", "CONVERT(1E+308,\"km\",\"m\")", "BIN2DEC(\"1111111111\")", "DELTA(1E+308,1E+308)", "ERF(1E+308)", "ROUND(1,1000000)", "ROUND(1E+308,-308)", "ROUNDUP(1E+308,-308)", "MROUND(1E+308,3)", "CEILING(1E+308,7)",
    "FLOOR(1E+308,1E-320)", "TRUNC(1E+308,400)", "INT(1E+308)", "ABS(-1E+308)*2", "SIGN(A2)*A1*2", "SUBTOTAL(9,A1:A3)*2", "AGGREGATE(9,4,A1:A3)*2", "SUMIF(A1:A3,\">0\")*2", "AVERAGEIF(A1:A3,\">0\")", "MAX(A1:A3)*10", "MIN(A1:A3)*10", "LARGE(A1:A3,1)^2",
    "DATE(2020,1E+9,1)", "DATE(9999,12,31)+1E+308", "EDATE(1,1E+9)", "TIME(1E+308,0,0)", "DAYS(1E+308,-1E+308)", "YEARFRAC(1,1E+308)", "{1,2}*1E+308*10", "A1:A3*A1:A3", "SEQUENCE(3)*1E+308*10", "SEQUENCE(2,2,1E+308,1E+308)", "MMULT({1E+308,1E+308},{1E+308;1E+308})",
    "MDETERM({1E+308,1;1,1E+308})", "MINVERSE({1E-320,0;0,1E-320})", "TRANSPOSE(A1:A3)*1E+300", "ABS(A1:A3)*10", "EXP({709,710,711})", "POWER({10,10},{308,309})", "SQRT({1,-1})", "LN({1,0})", "MMULT(A1:A2,TRANSPOSE(A1:A2))",
];

/// `=FN(args...)`: every function with 0-4 moderate arguments, or one of the curated overflowing calls
pub fn extreme_call(rng: &mut StdRng) -> String {
    if rng.gen_bool(0.3) {
        return format!("={}", pick(rng, CURATED));
    }
    let fs = all_functions();
    let f = &fs[rng.gen_range(0..fs.len())];
    let name = format!("{:?}", f).to_uppercase();
    // the Debug name is the English name without dots; the engine's own table gives the real one
    let name = ironcalc_base::language::get_language("en").map(|l| f.to_localized_name(l)).unwrap_or(name);
    let n = rng.gen_range(0..=4);
    let args: Vec<String> = (0..n).map(|_| (*pick(rng, MODERATE)).to_string()).collect();
    format!("={}({})", name, args.join(","))
}

/// overflowing arithmetic in every context
pub fn overflow_formula(rng: &mut StdRng) -> String {
    let a = *pick(rng, EXTREMES);
    let b = *pick(rng, EXTREMES);
    let op = *pick(rng, &["*", "+", "-", "/", "^"]);
    match rng.gen_range(0..8) {
        0 => format!("={a}{op}{b}"),
        1 => format!("={{1E+308,2}}{op}{b}"),
        2 => format!("=A1:A3{op}{b}"),
        3 => format!("=SEQUENCE(3){op}{a}{op}{b}"),
        4 => format!("=SUM({a}{op}{b},A1:A3)"),
        5 => format!("=({a}{op}{b})&\"\""),
        6 => format!("=-({a}){op}({b})%"),
        _ => format!("=IF(TRUE,{a}{op}{b},1)"),
    }
}

fn scan(m: &Model) -> Option<String> {
    for (si, ws) in m.workbook.worksheets.iter().enumerate() {
        for (r, row) in &ws.sheet_data {
            for (c, cell) in row {
                let bad = match cell {
                    Cell::NumberCell { v, .. } => !v.is_finite(),
                    Cell::CellFormula { v, .. } | Cell::ArrayFormula { v, .. } => matches!(v, FormulaValue::Number(n) if !n.is_finite()),
                    Cell::SpillCell { v, .. } => matches!(v, SpillValue::Number(n) if !n.is_finite()),
                    _ => false,
                };
                if bad {
                    let kind = match cell {
                        Cell::NumberCell { .. } => "number cell",
                        Cell::CellFormula { .. } => "formula cell",
                        Cell::ArrayFormula { .. } => "array anchor",
                        _ => "spill cell",
                    };
                    return Some(format!("{kind} s{si}!R{r}C{c} holds {:?}; formatted {:?}", m.get_cell_value_by_index(si as u32, *r, *c), m.get_formatted_cell_value(si as u32, *r, *c)));
                }
                // what the API shows must be finite as well
                if let Ok(ironcalc_base::cell::CellValue::Number(n)) = m.get_cell_value_by_index(si as u32, *r, *c) {
                    if !n.is_finite() {
                        return Some(format!("s{si}!R{r}C{c} shows the number {n}"));
                    }
                }
            }
        }
    }
    None
}

fn base_model() -> Option<Model<'static>> {
    let mut m = Model::new_empty("m", "en", "UTC", "en").ok()?;
    m.set_user_input(0, 1, 1, "1E+308".into()).ok()?;
    m.set_user_input(0, 2, 1, "-1E+308".into()).ok()?;
    m.set_user_input(0, 3, 1, "2".into()).ok()?;
    Some(m)
}

/// (class, where the number went, detail)
fn check_inputs(inputs: &[(i32, i32, String, bool)], st: &mut Stats) -> Option<(String, String)> {
    let mut m = base_model()?;
    for (r, c, text, array) in inputs {
        let res = if *array { guarded(|| m.set_user_array_formula(0, *r, *c, 2, 2, text)).map(|_| ()) } else { guarded(|| m.set_user_input(0, *r, *c, text.clone())).map(|_| ()) };
        if res.is_err() {
            st.count("input_panicked_left_to_C11");
            return None;
        }
    }
    if guarded(|| m.evaluate()).is_err() {
        st.count("evaluate_panicked_left_to_C11");
        return None;
    }
    st.evaluations += 1;
    if let Some(d) = scan(&m) {
        return Some(("evaluated".into(), d));
    }
    // the same numbers after both file round trips
    if let Ok(Ok(m2)) = guarded(|| Model::from_bytes(&m.to_bytes(), "en")) {
        let mut m2 = m2;
        m2.evaluate();
        if let Some(d) = scan(&m2) {
            return Some(("from_bytes".into(), d));
        }
    }
    None
}

fn xlsx_with_numbers(values: &[&str]) -> Option<Vec<u8>> {
    use std::io::{Read, Write};
    let mut m = Model::new_empty("m", "en", "UTC", "en").ok()?;
    for (i, _) in values.iter().enumerate() {
        m.set_user_input(0, i as i32 + 1, 1, format!("{}", 424200 + i)).ok()?;
        m.set_user_input(0, i as i32 + 1, 2, format!("=A{}*1", i + 1)).ok()?;
    }
    m.evaluate();
    let bytes = ironcalc::export::save_xlsx_to_writer(&m, std::io::Cursor::new(Vec::new())).ok()?.into_inner();
    let mut zin = zip::ZipArchive::new(std::io::Cursor::new(bytes)).ok()?;
    let mut out = zip::ZipWriter::new(std::io::Cursor::new(Vec::new()));
    for i in 0..zin.len() {
        let mut f = zin.by_index(i).ok()?;
        let name = f.name().to_string();
        let mut data = vec![];
        f.read_to_end(&mut data).ok()?;
        if name.contains("worksheets/sheet") {
            let mut text = String::from_utf8_lossy(&data).to_string();
            for (i, v) in values.iter().enumerate() {
                text = text.replace(&format!("<v>{}</v>", 424200 + i), &format!("<v>{v}</v>"));
            }
            data = text.into_bytes();
        }
        out.start_file(name, zip::write::FileOptions::default()).ok()?;
        out.write_all(&data).ok()?;
    }
    Some(out.finish().ok()?.into_inner())
}

const FILE_NUMBERS: &[&str] = &["1E+999", "-1E+999", "NaN", "inf", "-inf", "Infinity", "-Infinity", "1e309", "1.8E+308", "nan", "INF", "+inf", "1e400", "0x10", "1E+308"];

fn check_file(values: &[&str], st: &mut Stats) -> Option<(String, String)> {
    let bytes = xlsx_with_numbers(values)?;
    let wb = match guarded(|| ironcalc::import::load_from_xlsx_bytes(&bytes, "m", "en", "UTC")) {
        Ok(Ok(wb)) => wb,
        Ok(Err(_)) => {
            st.count("file_rejected");
            return None;
        }
        Err(_) => {
            st.count("import_panicked_left_to_C25");
            return None;
        }
    };
    let Ok(Ok(mut m)) = guarded(|| Model::from_workbook(wb, "en")) else { return None };
    st.evaluations += 1;
    if let Some(d) = scan(&m) {
        return Some(("xlsx-import".into(), d));
    }
    if guarded(|| m.evaluate()).is_err() {
        return None;
    }
    scan(&m).map(|d| ("xlsx-import-evaluated".into(), d))
}

fn fname(text: &str) -> String {
    text.trim_start_matches('=').split('(').next().unwrap_or("?").chars().filter(|c| c.is_ascii_alphanumeric() || *c == '.').collect()
}

fn run(ctx: &Ctx) -> Stats {
    let n = ctx.n(30_000, 3_000_000);
    let seed = ctx.seed;
    crate::par::run_cases(n, ctx.threads, Duration::from_secs(if ctx.quick() { 90 } else { 1500 }), |i, st| {
        let mut rng = crate::util::rng_for(seed, 8, i);
        if i % 50 == 49 {
            let vals: Vec<&str> = (0..4).map(|_| *pick(&mut rng, FILE_NUMBERS)).collect();
            st.shape(format!("file:{}", vals[0]));
            if let Some((class, d)) = check_file(&vals, st) {
                ctx.report(st, "non-finite", format!("non-finite|{class}|file"), d, json!({"file_numbers": vals}));
            }
            return;
        }
        let (text, array, key) = match i % 5 {
            0 | 1 => {
                let t = extreme_call(&mut rng);
                let k = fname(&t);
                (t, rng.gen_bool(0.15), k)
            }
            2 | 3 => (overflow_formula(&mut rng), rng.gen_bool(0.15), "arithmetic".to_string()),
            _ => ((*pick(&mut rng, &["1e999", "-1e999", "1e309", "1e308", "1.8e308", "1e308%", "$1e400", "1e400%", "NaN", "inf", "-inf", "infinity", "1E+308", "179769313486231580000000000000000000000000000000000000000000000000000000000000000000000000000000000000000000000000000000000000000000000000000000000000000000000000000000000000000000000000000000000000000000000000000000000000000000000000000000000000000000000000000000000000000000000000000000000000000000000000000"])).to_string(), false, "typed".to_string()),
        };
        st.shape(key.clone());
        if i < 3 {
            st.sample(json!({"input": text, "array": array}));
        }
        let inputs = vec![(5, 3, text.clone(), array), (8, 3, "=C5".to_string(), false), (9, 3, "=SUM(C5:D6)".to_string(), false)];
        // a generous wall-clock watchdog: a case that does not end is abandoned (inconclusive)
        let (tx, rx) = std::sync::mpsc::channel();
        let inputs2 = inputs.clone();
        let _ = std::thread::Builder::new().stack_size(64 * 1024 * 1024).spawn(move || {
            let mut local = Stats::default();
            let r = check_inputs(&inputs2, &mut local);
            let _ = tx.send((r, local));
        });
        let outcome = match rx.recv_timeout(Duration::from_secs(20)) {
            Ok((r, local)) => {
                st.merge(local);
                r
            }
            Err(_) => {
                st.inconclusive += 1;
                st.set_add("abandoned_slow_inputs", text.clone());
                None
            }
        };
        if let Some((class, d)) = outcome {
            ctx.report(st, "non-finite", format!("non-finite|{class}|{key}"), format!("after typing {text:?}{}: {d}", if array { " as a 2x2 array formula" } else { "" }), json!({"inputs": inputs}));
        }
    })
}

fn replay(_ctx: &Ctx, case: &Value) -> Vec<Violation> {
    let mut st = Stats::default();
    if let Some(vals) = case.get("file_numbers").and_then(|v| v.as_array()) {
        let vals: Vec<&str> = vals.iter().filter_map(|v| v.as_str()).collect();
        return check_file(&vals, &mut st).map(|(class, d)| vec![Violation { check: "non-finite".into(), sig: format!("non-finite|{class}|file"), detail: d, case: case.clone() }]).unwrap_or_default();
    }
    let Ok(inputs) = serde_json::from_value::<Vec<(i32, i32, String, bool)>>(case.get("inputs").cloned().unwrap_or(Value::Null)) else { return vec![] };
    let key = inputs.first().map(|x| if x.2.contains('(') && x.2.starts_with('=') && x.2[1..].chars().next().map(|c| c.is_ascii_alphabetic()).unwrap_or(false) { fname(&x.2) } else { "arithmetic".to_string() }).unwrap_or_default();
    check_inputs(&inputs, &mut st).map(|(class, d)| vec![Violation { check: "non-finite".into(), sig: format!("non-finite|{class}|{key}"), detail: d, case: case.clone() }]).unwrap_or_default()
}

pub fn props() -> Vec<PropInfo> {
    vec![PropInfo {
        id: "C08",
        level: "exploration",
        rule: "every built-in function (enumerated through the verif_hooks re-export) called with 0-4 arguments drawn from 38 extreme values (largest/smallest doubles, overflowing sub-expressions, factorial and exp thresholds, date limits, text, ranges and array literals holding 1E+308), as a plain formula and as a 2x2 array formula; overflowing + - * / ^ in scalar, array-literal, range and SEQUENCE context; typed numbers beyond the double range; xlsx files whose <v> elements hold 1E+999, NaN, inf, Infinity...; after evaluation, after to_bytes/from_bytes and after import every cell (number, formula, array anchor, spill) is scanned for NaN/infinite numbers; shape key = function name / class",
        assumptions: &["inputs that panic are left to C11 / C25 (counted)", "a number is judged where it is stored and where get_cell_value_by_index shows it"],
        run,
        replay,
    }]
}
