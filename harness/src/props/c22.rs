//! C22 — cell-reference and sheet-name codecs are bijective.

use super::{Ctx, PropInfo};
use crate::evid::{Stats, Violation};
use crate::util::col_name;
use ironcalc_base::expressions::lexer::LexerMode;
use ironcalc_base::expressions::parser::stringify::{to_localized_string, to_rc_format};
use ironcalc_base::expressions::parser::{Node, Parser};
use ironcalc_base::expressions::types::CellReferenceRC;
use ironcalc_base::expressions::utils::{column_to_number, number_to_column, quote_name};
use ironcalc_base::language::get_language;
use ironcalc_base::locale::get_locale;
use rand::Rng;
use serde_json::{json, Value};
use std::collections::{BTreeSet, HashMap};
use std::time::Duration;

fn check_columns(st: &mut Stats) {
    let mut seen = BTreeSet::new();
    for c in 1..=16384 {
        st.evaluations += 1;
        let name = number_to_column(c);
        let want = col_name(c);
        let ok = match &name {
            Some(n) => *n == want && column_to_number(n) == Ok(c) && seen.insert(n.clone()),
            None => false,
        };
        if !ok {
            st.violation(
                "columns",
                "columns|-|".into(),
                format!("column {c}: number_to_column = {:?}, expected {want}, back = {:?}", name, name.as_ref().map(|n| column_to_number(n))),
                json!({"kind": "column", "column": c}),
            );
            return;
        }
    }
    // lower-case and out-of-range inputs are rejected or mapped consistently
    for bad in ["", "XFE", "A1", "ÄB", "AAAA"] {
        st.evaluations += 1;
        if let Ok(n) = column_to_number(bad) {
            if (1..=16384).contains(&n) && number_to_column(n).as_deref() != Some(bad) {
                st.violation(
                    "columns",
                    "columns-bad|-|".into(),
                    format!("column_to_number({bad:?}) = {n} but number_to_column({n}) = {:?}", number_to_column(n)),
                    json!({"kind": "column-text", "text": bad}),
                );
            }
        }
    }
    st.shape("columns:all-16384".into());
    st.add("columns_checked", 16384);
}

fn sheet_list() -> Vec<String> {
    vec!["Sheet1".to_string(), "My Sheet".to_string(), "x'y".to_string()]
}

fn new_parser(sheets: Vec<String>) -> Parser<'static> {
    let locale = get_locale("en").expect("locale");
    let language = get_language("en").expect("language");
    Parser::new(sheets, vec![], HashMap::new(), locale, language)
}

/// One address case: text printed by the harness, parsed, printed in A1 and R1C1, parsed back.
fn check_address(text: &str, ctx_cell: &CellReferenceRC, want: &AddrWant) -> Option<String> {
    let mut p = new_parser(sheet_list());
    let node = p.parse(text, ctx_cell);
    // coordinates and flags
    let got = addr_of(&node, ctx_cell);
    if got.as_ref() != Some(want) {
        return Some(format!("parse({text}) at R{}C{} = {:?} -> {:?}, expected {:?}", ctx_cell.row, ctx_cell.column, node, got, want));
    }
    let locale = get_locale("en").expect("locale");
    let language = get_language("en").expect("language");
    let a1 = to_localized_string(&node, ctx_cell, locale, language);
    if a1 != text {
        return Some(format!("A1 print of parse({text}) = {a1}"));
    }
    let n2 = p.parse(&a1, ctx_cell);
    if n2 != node {
        return Some(format!("A1 round trip of {text}: {:?} != {:?}", n2, node));
    }
    let rc = to_rc_format(&node);
    p.set_lexer_mode(LexerMode::R1C1);
    let n3 = p.parse(&rc, ctx_cell);
    p.set_lexer_mode(LexerMode::A1);
    if n3 != node {
        return Some(format!("R1C1 round trip of {text} via {rc}: {:?} != {:?}", n3, node));
    }
    None
}

#[derive(Debug, PartialEq, Clone)]
struct AddrWant {
    sheet: u32,
    cells: Vec<(i32, i32, bool, bool)>, // absolute row, absolute column, abs_row flag, abs_col flag
}

fn abs(v: i32, is_abs: bool, origin: i32) -> i32 {
    if is_abs {
        v
    } else {
        v + origin
    }
}

fn addr_of(node: &Node, c: &CellReferenceRC) -> Option<AddrWant> {
    match node {
        Node::ReferenceKind { sheet_index, absolute_row, absolute_column, row, column, .. } => Some(AddrWant {
            sheet: *sheet_index,
            cells: vec![(abs(*row, *absolute_row, c.row), abs(*column, *absolute_column, c.column), *absolute_row, *absolute_column)],
        }),
        Node::RangeKind { sheet_index, absolute_row1, absolute_column1, row1, column1, absolute_row2, absolute_column2, row2, column2, .. } => Some(AddrWant {
            sheet: *sheet_index,
            cells: vec![
                (abs(*row1, *absolute_row1, c.row), abs(*column1, *absolute_column1, c.column), *absolute_row1, *absolute_column1),
                (abs(*row2, *absolute_row2, c.row), abs(*column2, *absolute_column2, c.column), *absolute_row2, *absolute_column2),
            ],
        }),
        _ => None,
    }
}

fn a1(row: i32, col: i32, ar: bool, ac: bool) -> String {
    format!("{}{}{}{}", if ac { "$" } else { "" }, col_name(col), if ar { "$" } else { "" }, row)
}

fn address_cases(ctx: &Ctx, st: &mut Stats) {
    let rows_fixed = [1, 2, 9, 10, 99, 100, 999, 1000, 65536, 1048575, 1048576];
    let cols_fixed = [1, 2, 25, 26, 27, 52, 53, 256, 701, 702, 703, 704, 16383, 16384];
    let mut rng = crate::util::rng_for(ctx.seed, 22, 1);
    let mut rows: Vec<i32> = rows_fixed.to_vec();
    let mut cols: Vec<i32> = cols_fixed.to_vec();
    let extra = if ctx.quick() { 30 } else { 400 };
    for _ in 0..extra {
        rows.push(rng.gen_range(1..=1048576));
        cols.push(rng.gen_range(1..=16384));
    }
    let sheets = sheet_list();
    let prefixes: Vec<(Option<u32>, String)> = vec![
        (None, "".into()),
        (Some(0), "Sheet1!".into()),
        (Some(1), "'My Sheet'!".into()),
        (Some(2), "'x''y'!".into()),
    ];
    let _ = sheets;
    let ctx_cells = [(1, 1), (7, 3), (1048576, 16384), (500, 500)];
    for (ci, (cr, cc)) in ctx_cells.iter().enumerate() {
        let ctx_cell = CellReferenceRC { sheet: "Sheet1".into(), row: *cr, column: *cc };
        for &row in &rows {
            for &col in &cols {
                for flags in 0..4 {
                    let (ar, ac) = (flags & 1 == 1, flags & 2 == 2);
                    let (pi, (psheet, ptext)) = {
                        let k = (row as usize + col as usize + flags + ci) % prefixes.len();
                        (k, &prefixes[k])
                    };
                    st.evaluations += 1;
                    let text = format!("{ptext}{}", a1(row, col, ar, ac));
                    let want = AddrWant { sheet: psheet.unwrap_or(0), cells: vec![(row, col, ar, ac)] };
                    if let Some(d) = check_address(&text, &ctx_cell, &want) {
                        st.violation("address", "address|cell|".into(), d, json!({"kind": "address", "text": text, "row": cr, "column": cc}));
                        return;
                    }
                    st.shape(format!("cell:flags{flags}:prefix{pi}:ctx{ci}"));
                    // a range from this cell to a second one below/right of it
                    let row2 = (row + (col % 7)).min(1048576);
                    let col2 = (col + (row % 5)).min(16384);
                    if row2 == row && col2 == col {
                        continue;
                    }
                    let (ar2, ac2) = ((flags + ci) & 1 == 1, (flags + ci) & 2 == 2);
                    let rtext = format!("{ptext}{}:{}", a1(row, col, ar, ac), a1(row2, col2, ar2, ac2));
                    let want = AddrWant { sheet: psheet.unwrap_or(0), cells: vec![(row, col, ar, ac), (row2, col2, ar2, ac2)] };
                    st.evaluations += 1;
                    if let Some(d) = check_address(&rtext, &ctx_cell, &want) {
                        st.violation("address", "address|range|".into(), d, json!({"kind": "address", "text": rtext, "row": cr, "column": cc}));
                        return;
                    }
                    st.shape(format!("range:flags{flags}:prefix{pi}:ctx{ci}"));
                }
            }
        }
    }
    // ranges that reach the last row / last column: printers have a short form for whole
    // columns and rows (A:A, 1:1), which must only be used for exactly those ranges
    for (ci, (cr, cc)) in ctx_cells.iter().enumerate() {
        let ctx_cell = CellReferenceRC { sheet: "Sheet1".into(), row: *cr, column: *cc };
        for start in [1, 2, cr - 1, *cr, cr + 1, cr + 2] {
            if !(1..=1048576).contains(&start) {
                continue;
            }
            for flags in 0..16 {
                let (ar1, ac1, ar2, ac2) = (flags & 1 == 1, flags & 2 == 2, flags & 4 == 4, flags & 8 == 8);
                for col in [1, 3] {
                    let text = format!("{}:{}", a1(start, col, ar1, ac1), a1(1048576, col + 1, ar2, ac2));
                    if start == 1 {
                        continue; // a genuine whole-column range has its own canonical text (A:B)
                    }
                    let want = AddrWant { sheet: 0, cells: vec![(start, col, ar1, ac1), (1048576, col + 1, ar2, ac2)] };
                    st.evaluations += 1;
                    if let Some(d) = check_address(&text, &ctx_cell, &want) {
                        st.violation("address", "address|to-last-row|".into(), d, json!({"kind": "address", "text": text, "row": cr, "column": cc}));
                        return;
                    }
                    st.shape(format!("to-last-row:flags{flags}:ctx{ci}"));
                }
            }
        }
        for start in [1, 2, cc - 1, *cc, cc + 1, cc + 2] {
            if !(1..=16384).contains(&start) || start == 1 {
                continue;
            }
            for flags in 0..16 {
                let (ar1, ac1, ar2, ac2) = (flags & 1 == 1, flags & 2 == 2, flags & 4 == 4, flags & 8 == 8);
                let text = format!("{}:{}", a1(2, start, ar1, ac1), a1(3, 16384, ar2, ac2));
                let want = AddrWant { sheet: 0, cells: vec![(2, start, ar1, ac1), (3, 16384, ar2, ac2)] };
                st.evaluations += 1;
                if let Some(d) = check_address(&text, &ctx_cell, &want) {
                    st.violation("address", "address|to-last-column|".into(), d, json!({"kind": "address", "text": text, "row": cr, "column": cc}));
                    return;
                }
                st.shape(format!("to-last-column:flags{flags}:ctx{ci}"));
            }
        }
    }
    st.sample(json!({"address_text": "'My Sheet'!$XFD$1048576", "context": "R7C3", "forms": ["A1", "R1C1"]}));
}

fn valid_sheet_name(name: &str) -> bool {
    let invalid = ['\\', '/', '*', '?', ':', '[', ']'];
    !name.is_empty() && name.chars().count() <= 31 && !name.contains(&invalid[..])
}

/// `quote_name(N)!A1`, parsed with N in the sheet list, must be a reference to that sheet.
fn check_sheet_name(name: &str) -> Option<String> {
    let mut p = new_parser(vec!["Other".to_string(), name.to_string()]);
    let ctx_cell = CellReferenceRC { sheet: "Other".into(), row: 1, column: 1 };
    let text = format!("{}!A1", quote_name(name));
    match p.parse(&text, &ctx_cell) {
        Node::ReferenceKind { sheet_index: 1, sheet_name: Some(n), .. } if n == name => None,
        other => Some(format!("sheet {name:?} quoted as {:?}: {text} parses to {:?}", quote_name(name), other)),
    }
}

fn char_class(c: char) -> String {
    if c.is_ascii_alphabetic() {
        "letter".into()
    } else if c.is_ascii_digit() {
        "digit".into()
    } else if c.is_alphanumeric() {
        "unicode-alnum".into()
    } else {
        format!("U+{:04X}", c as u32)
    }
}

fn sheet_names(ctx: &Ctx, st: &mut Stats) {
    let alphabet: Vec<char> = "A1RCeE '!\"#$%&()+,-.;<=>@^_{}~é\u{a0}".chars().collect();
    let mut names: Vec<String> = vec![];
    for a in &alphabet {
        names.push(a.to_string());
        for b in &alphabet {
            names.push(format!("{a}{b}"));
            if ctx.quick() {
                continue;
            }
            for c in &alphabet {
                names.push(format!("{a}{b}{c}"));
            }
        }
    }
    if ctx.quick() {
        // length 3 in quick: a deterministic third of the space, rotated by the seed
        let mut k = ctx.seed as usize;
        for a in &alphabet {
            for b in &alphabet {
                for c in &alphabet {
                    k += 1;
                    if k % 3 == 0 {
                        names.push(format!("{a}{b}{c}"));
                    }
                }
            }
        }
    }
    for s in [
        "A1", "R1C1", "RC", "R", "C", "XFD1048576", "XFE1", "A1048577", "TRUE", "FALSE", "VERDADERO", "WAHR", "VRAI", "VERO",
        "SUM", "123", "1e5", "Sheet 1", "Data(2024)", "It's", "''", "a.b", ".a", "_x", "é", "名前", "Ünï", "a!b", "x y z",
        "1234567890123456789012345678901",
    ] {
        names.push(s.to_string());
    }
    let mut rng = crate::util::rng_for(ctx.seed, 22, 2);
    let n_random = if ctx.quick() { 3000 } else { 200_000 };
    for _ in 0..n_random {
        let len = rng.gen_range(1..=6);
        let s: String = (0..len)
            .map(|_| {
                let r: u32 = match rng.gen_range(0..4) {
                    0 => rng.gen_range(0x20..0x7f),
                    1 => rng.gen_range(0xa0..0x250),
                    2 => rng.gen_range(0x370..0x2100),
                    _ => rng.gen_range(0x3040..0x30ff),
                };
                char::from_u32(r).unwrap_or('x')
            })
            .collect();
        names.push(s);
    }
    for name in names {
        if !valid_sheet_name(&name) {
            continue;
        }
        st.evaluations += 1;
        if let Some(d) = check_sheet_name(&name) {
            let classes: Vec<String> = name.chars().filter(|c| !c.is_alphanumeric()).map(char_class).collect();
            st.violation(
                "sheet-name",
                format!("sheet-name|{}|", classes.first().cloned().unwrap_or_else(|| "alnum-only".into())),
                d,
                json!({"kind": "sheet-name", "name": name}),
            );
            if st.violations.len() > 40 {
                return;
            }
        } else {
            let mut key: Vec<String> = name.chars().map(char_class).collect();
            key.dedup();
            st.shape(format!("name:{}", key.join("+")));
        }
    }
    st.sample(json!({"sheet_name": "It's", "quoted": quote_name("It's")}));
}

fn run(ctx: &Ctx) -> Stats {
    let mut parts = crate::par::run_cases(3, ctx.threads.min(3), Duration::from_secs(900), |i, st| match i {
        0 => check_columns(st),
        1 => address_cases(ctx, st),
        _ => sheet_names(ctx, st),
    });
    parts.extra.insert("exhaustive".into(), json!(true));
    parts.extra.insert("exhaustive_scope".into(), json!("all 16384 columns; sheet names bounded-exhaustively to length 2 (quick: plus a third of length 3; thorough: all of length 3) over a 33-character tricky alphabet"));
    parts
}

fn replay(_ctx: &Ctx, case: &Value) -> Vec<Violation> {
    let mut st = Stats::default();
    match case.get("kind").and_then(|k| k.as_str()) {
        Some("sheet-name") => {
            if let Some(name) = case.get("name").and_then(|n| n.as_str()) {
                if let Some(d) = check_sheet_name(name) {
                    let classes: Vec<String> = name.chars().filter(|c| !c.is_alphanumeric()).map(char_class).collect();
                    st.violation("sheet-name", format!("sheet-name|{}|", classes.first().cloned().unwrap_or_else(|| "alnum-only".into())), d, case.clone());
                }
            }
        }
        Some("column") | Some("column-text") => check_columns(&mut st),
        Some("address") => {
            let text = case.get("text").and_then(|t| t.as_str()).unwrap_or("A1");
            let row = case.get("row").and_then(|t| t.as_i64()).unwrap_or(1) as i32;
            let column = case.get("column").and_then(|t| t.as_i64()).unwrap_or(1) as i32;
            let ctx_cell = CellReferenceRC { sheet: "Sheet1".into(), row, column };
            // re-derive the expectation from the text the harness printed
            let mut p = new_parser(sheet_list());
            let node = p.parse(text, &ctx_cell);
            if let Some(want) = addr_of(&node, &ctx_cell) {
                if let Some(d) = check_address(text, &ctx_cell, &want) {
                    st.violation("address", "address|replay|".into(), d, case.clone());
                }
            } else {
                st.violation("address", "address|replay|".into(), format!("{text} does not parse to a reference: {:?}", node), case.clone());
            }
        }
        _ => {}
    }
    st.violations
}

pub fn props() -> Vec<PropInfo> {
    vec![PropInfo {
        id: "C22",
        level: "exploration",
        rule: "all 16384 columns (exhaustive); addresses = {fixed boundary rows/columns + random} x 4 $-combinations x {no sheet, plain, quoted, quote-in-name sheet} x 4 context cells, each parsed, printed in A1 and R1C1 and parsed back; sheet names bounded-exhaustive over a 33-character alphabet plus look-alikes plus random Unicode; shape key = (kind, flags, prefix, context) or the character-class skeleton of the name",
        assumptions: &[
            "a sheet name is valid iff non-empty, at most 31 characters and free of \\ / * ? : [ ] (the engine's own rule)",
            "addresses are printed by the harness in canonical upper-case form, so the A1 print must equal the input text",
        ],
        run,
        replay,
    }]
}
