use crate::evid::{Stats, Violation};
use crate::known::Finding;
use serde_json::Value;
use std::collections::BTreeSet;

pub mod c07;
pub mod c08;
pub mod c09;
pub mod c10;
pub mod c11;
pub mod c17;
pub mod c18;
pub mod c19;
pub mod c20;
pub mod c21;
pub mod c22;
pub mod c23;
pub mod c24;
pub mod c25;
pub mod c29;
pub mod c30;
pub mod c31;
pub mod c32;
pub mod c34;
pub mod eval;
pub mod hist;
pub mod structural;

#[derive(Clone)]
pub struct Ctx {
    pub tier: String,
    pub seed: u64,
    pub threads: usize,
    /// clean-room alternatives (sets of generator switches) from the open known findings
    pub avoid: Vec<BTreeSet<String>>,
    pub findings: Vec<Finding>,
    pub verif_dir: String,
    pub repo_dir: String,
}

impl Ctx {
    pub fn quick(&self) -> bool {
        self.tier == "quick"
    }
    /// pick a budget by tier
    pub fn n(&self, quick: u64, thorough: u64) -> u64 {
        if self.quick() {
            quick
        } else {
            thorough
        }
    }
    /// Record a violation, unless a committed open finding explains its signature
    /// (then it is only tallied and the workload goes on).
    pub fn report(&self, st: &mut Stats, check: &str, sig: String, detail: String, case: Value) {
        if let Some(f) = self
            .findings
            .iter()
            .find(|f| f.status == "open" && f.explains(&sig))
        {
            st.count(&format!("known_hit.{}", f.id));
        } else {
            st.violation(check, sig, detail, case);
        }
    }
    /// the switches of clean-room alternative `k` (cases rotate over the alternatives)
    pub fn avoid_alt(&self, k: u64) -> Vec<&str> {
        if self.avoid.is_empty() {
            return vec![];
        }
        self.avoid[(k as usize) % self.avoid.len()]
            .iter()
            .map(|s| s.as_str())
            .collect()
    }
}

pub struct PropInfo {
    pub id: &'static str,
    pub level: &'static str,
    pub rule: &'static str,
    pub assumptions: &'static [&'static str],
    pub run: fn(&Ctx) -> Stats,
    pub replay: fn(&Ctx, &Value) -> Vec<Violation>,
}

pub fn registry() -> Vec<PropInfo> {
    let mut v = vec![];
    v.extend(hist::props());
    v.extend(eval::props());
    v.extend(c07::props());
    v.extend(c08::props());
    v.extend(c09::props());
    v.extend(c10::props());
    v.extend(c11::props());
    v.extend(c24::props());
    v.extend(c25::props());
    v.extend(structural::props());
    v.extend(c17::props());
    v.extend(c18::props());
    v.extend(c19::props());
    v.extend(c20::props());
    v.extend(c21::props());
    v.extend(c22::props());
    v.extend(c23::props());
    v.extend(c29::props());
    v.extend(c30::props());
    v.extend(c31::props());
    v.extend(c32::props());
    v.extend(c34::props());
    v
}
