//! C17 — sheet rename, move and duplicate preserve values.
//! Oracle: values keyed by the sheet's permanent id are compared before and after the
//! operation; after a rename the reference lists of every formula are compared with the
//! expectation "same references, the renamed sheet under its new name"; a duplicated sheet
//! must show its source's values.

use super::{Ctx, PropInfo};
use crate::evid::{Stats, Violation};
use crate::fgen::{self, Dialect};
use crate::nodeutil;
use crate::props::eval::{constant, core_expr, Pool};
use crate::refeval::{engine_value, V};
use crate::util::{col_name, guarded, pick};
use ironcalc_base::expressions::types::CellReferenceRC;
use ironcalc_base::types::Cell;
use ironcalc_base::Model;
use rand::Rng;
use serde::{Deserialize, Serialize};
use serde_json::{json, Value};
use std::collections::BTreeMap;
use std::time::Duration;

#[derive(Clone, Debug, Serialize, Deserialize)]
pub enum SheetOp {
    Rename(u32, String),
    Move(u32, u32),
    Duplicate(u32),
}

#[derive(Clone, Debug, Serialize, Deserialize)]
pub struct Case {
    #[serde(default)]
    pub third: Option<String>,
    pub cells: Vec<(u32, i32, i32, String)>,
    pub names: Vec<(String, String)>,
    pub op: SheetOp,
}

const SHEETS: &[&str] = &["Sheet1", "Sheet2", "My Sheet"];
/// an alternative name for the third sheet (a quote inside a quoted name is doubled in formulas)
const THIRD_ALT: &str = "x'y";

fn build(case: &Case) -> Option<Model<'static>> {
    let mut m = Model::new_empty("wb", "en", "UTC", "en").ok()?;
    m.new_sheet();
    m.new_sheet();
    m.rename_sheet_by_index(2, case.third.as_deref().unwrap_or("My Sheet")).ok()?;
    for (n, f) in &case.names {
        let _ = m.new_defined_name(n, None, f);
    }
    for (s, r, c, t) in &case.cells {
        m.set_user_input(*s, *r, *c, t.clone()).ok()?;
    }
    m.evaluate();
    Some(m)
}

fn show(v: Result<V, crate::refeval::Unsupported>) -> String {
    match v {
        Ok(V::Num(x)) => format!("n:{:.11e}", if x == 0.0 { 0.0 } else { x }),
        Ok(v) => format!("{:?}", v),
        Err(_) => "unevaluated".into(),
    }
}

/// (sheet id, row, col) -> (value, reference list with sheet names, operator skeleton)
fn observe(m: &Model) -> BTreeMap<(u32, i32, i32), (String, Option<(Vec<String>, String)>)> {
    let mut out = BTreeMap::new();
    for (si, ws) in m.workbook.worksheets.iter().enumerate() {
        for (r, row) in &ws.sheet_data {
            for (c, cell) in row {
                let v = show(engine_value(m, si as u32, *r, *c));
                let f = match cell {
                    Cell::CellFormula { f, .. } => m.parsed_formulas.get(si).and_then(|v| v.get(*f as usize)).map(|n| {
                        let ctx = CellReferenceRC { sheet: String::new(), row: *r, column: *c };
                        // references by NAME (the index of a sheet may legitimately change)
                        let refs: Vec<String> = nodeutil::reference_targets(&n.0, &ctx).into_iter().map(|t| t.split_once('/').map(|x| x.1.to_string()).unwrap_or(t)).collect();
                        (refs, nodeutil::skeleton(&n.0, 40))
                    }),
                    _ => None,
                };
                out.insert((ws.sheet_id, *r, *c), (v, f));
            }
        }
    }
    out
}

fn own_sheet_refs_explicit(refs: &[String]) -> bool {
    refs.iter().any(|r| !r.starts_with("None"))
}

fn check(case: &Case, st: &mut Stats) -> Option<(String, String, String)> {
    let mut m = guarded(|| build(case)).ok()??;
    let before = observe(&m);
    let ids: Vec<u32> = m.workbook.worksheets.iter().map(|w| w.sheet_id).collect();
    let names: Vec<String> = m.workbook.worksheets.iter().map(|w| w.get_name()).collect();
    let res = guarded(|| match &case.op {
        SheetOp::Rename(i, n) => m.rename_sheet_by_index(*i, n),
        SheetOp::Move(i, j) => m.move_sheet(*i, *j),
        SheetOp::Duplicate(i) => m.duplicate_sheet(*i).map(|_| ()),
    });
    let kind = format!("{:?}", case.op).split('(').next().unwrap_or("?").to_string();
    match res {
        Err(p) => return Some((kind, "panic".into(), format!("{:?} panicked: {p}", case.op))),
        Ok(Err(_)) => {
            st.count("operation_refused");
            return None;
        }
        Ok(Ok(())) => {}
    }
    m.evaluate();
    st.evaluations += 1;
    let after = observe(&m);
    // 1. every pre-existing cell keeps its value
    for (k, (v0, f0)) in &before {
        let Some((v1, f1)) = after.get(k) else {
            return Some((kind, "cell-lost".into(), format!("cell {:?} disappeared", k)));
        };
        if v0 != v1 {
            return Some((kind, "value".into(), format!("cell (sheet id {}, R{}C{}) had value {v0}, now {v1} after {:?}", k.0, k.1, k.2, case.op)));
        }
        // 2. references: unchanged except the renamed sheet's name
        if let (Some((r0, sk0)), Some((r1, sk1))) = (f0, f1) {
            let want: Vec<String> = match &case.op {
                SheetOp::Rename(i, n) => {
                    let old = format!("Some({:?})!", names[*i as usize].to_lowercase());
                    let new = format!("Some({:?})!", n.to_lowercase());
                    r0.iter().map(|r| if r.starts_with(&old) { format!("{new}{}", &r[old.len()..]) } else { r.clone() }).collect()
                }
                _ => r0.clone(),
            };
            // operator shapes are compared without parentheses: re-printing a formula drops the
            // parentheses of x+(y+z) (pinned printer behaviour, judged by C09)
            let flat = |s: &String| s.replace(['(', ')'], "");
            if &want != r1 || flat(sk0) != flat(sk1) {
                return Some((kind, "references".into(), format!("cell (sheet id {}, R{}C{}): references were {:?}, should be {:?}, are {:?} after {:?}; shape {} -> {}", k.0, k.1, k.2, r0, want, r1, case.op, sk0, sk1)));
            }
            st.count("formulas_reference_checked");
        }
    }
    // 3. a duplicated sheet computes its source's values
    if let SheetOp::Duplicate(i) = &case.op {
        let src = ids[*i as usize];
        let Some(new_id) = m.workbook.worksheets.iter().map(|w| w.sheet_id).find(|id| !ids.contains(id)) else {
            return Some((kind, "no-new-sheet".into(), "duplicate_sheet returned Ok but no sheet was added".into()));
        };
        for (k, (v0, f0)) in before.iter().filter(|(k, _)| k.0 == src) {
            let v1 = after.get(&(new_id, k.1, k.2)).map(|x| x.0.clone());
            // formulas that name their own sheet explicitly may keep pointing at the source: same value either way
            let _ = f0.as_ref().map(|f| own_sheet_refs_explicit(&f.0));
            if v1.as_ref() != Some(v0) {
                return Some((kind, "duplicate-value".into(), format!("R{}C{} shows {v0} on the source sheet and {:?} on its duplicate", k.1, k.2, v1)));
            }
        }
        st.count("duplicates_compared");
    }
    None
}

fn gen(rng: &mut rand::rngs::StdRng) -> Case {
    let en = Dialect::new("en", "en");
    let third = if rng.gen_bool(0.3) { Some(THIRD_ALT.to_string()) } else { None };
    let quoted = |i: usize| -> String {
        let name = if i == 2 { third.as_deref().unwrap_or(SHEETS[2]) } else { SHEETS[i] };
        if name.contains(' ') || name.contains('\'') { format!("'{}'", name.replace('\'', "''")) } else { name.to_string() }
    };
    let mut cells = vec![];
    let mut names = vec![];
    if rng.gen_bool(0.4) {
        names.push(("total".to_string(), format!("={}!$A$1+{}!$B$2", quoted(rng.gen_range(0..3)), quoted(rng.gen_range(0..3)))));
    }
    for s in 0..3u32 {
        for _ in 0..rng.gen_range(3..10) {
            let (r, c) = (rng.gen_range(1..=6), rng.gen_range(1..=5));
            if rng.gen_bool(0.4) {
                cells.push((s, r, c, constant(rng)));
                continue;
            }
            let mut pool = Pool { cells: vec![], ranges: vec![] };
            for _ in 0..5 {
                // only rows above the cell on its own sheet, anything on lower-numbered sheets: no cycles
                let target = rng.gen_range(0..=s);
                let r2 = if target == s { if r == 1 { continue } else { rng.gen_range(1..r) } } else { rng.gen_range(1..=6) };
                let prefix = match (target == s, rng.gen_bool(0.3)) {
                    (true, false) => String::new(),
                    _ => format!("{}!", quoted(target as usize)),
                };
                pool.cells.push(format!("{prefix}{}{}", col_name(rng.gen_range(1..=5)), r2));
            }
            if rng.gen_bool(0.15) {
                pool.cells.push("Ghost!A1".into());
            }
            if !names.is_empty() && rng.gen_bool(0.2) && s == 2 {
                pool.cells.push("total".into());
            }
            if s > 0 {
                pool.ranges.push(format!("Sheet1!A1:{}{}", col_name(rng.gen_range(1..=5)), rng.gen_range(1..=6)));
            }
            let depth = rng.gen_range(1..=3);
            let f = core_expr(rng, depth, &pool);
            let text = format!("={}", fgen::print(&f, &en));
            // x+(y+z) is re-printed as x+y+z when a sheet operation re-parses formulas (C09's
            // pinned finding); with cancellation the value moves, so that shape is left to C09
            if text.contains("+(") {
                continue;
            }
            cells.push((s, r, c, text));
        }
    }
    let op = match rng.gen_range(0..3) {
        0 => SheetOp::Rename(rng.gen_range(0..3), (*pick(rng, &["Data", "Other Sheet", "Sheet22", "A1", "TRUE", "Año", "x'y", "Sheet1 ", "R1C1", "SUM"])).to_string()),
        1 => SheetOp::Move(rng.gen_range(0..3), rng.gen_range(0..3)),
        _ => SheetOp::Duplicate(rng.gen_range(0..3)),
    };
    Case { third, cells, names, op }
}

fn run(ctx: &Ctx) -> Stats {
    let n = ctx.n(20_000, 1_500_000);
    let seed = ctx.seed;
    crate::par::run_cases(n, ctx.threads, Duration::from_secs(if ctx.quick() { 80 } else { 1500 }), |i, st| {
        let mut rng = crate::util::rng_for(seed, 17, i);
        let case = gen(&mut rng);
        st.shape(format!("{:?}:{}", std::mem::discriminant(&case.op), case.cells.len() / 5));
        st.set_add("operations", format!("{:?}", case.op).split('(').next().unwrap_or("").to_string());
        if i < 2 {
            st.sample(json!({"op": case.op, "cells": case.cells.iter().take(6).collect::<Vec<_>>()}));
        }
        if let Some((kind, what, _)) = check(&case, st) {
            let mut small = case.clone();
            let mut j = small.cells.len();
            while j > 0 {
                j -= 1;
                let mut cand = small.clone();
                cand.cells.remove(j);
                let mut scratch = Stats::default();
                if matches!(check(&cand, &mut scratch), Some((k2, w2, _)) if k2 == kind && w2 == what) {
                    small = cand;
                }
            }
            let mut scratch = Stats::default();
            if let Some((kind, what, detail)) = check(&small, &mut scratch) {
                ctx.report(st, &what, format!("{what}|{kind}|"), detail, serde_json::to_value(&small).unwrap_or(Value::Null));
            }
        }
    })
}

fn replay(_ctx: &Ctx, case: &Value) -> Vec<Violation> {
    let Ok(c) = serde_json::from_value::<Case>(case.clone()) else { return vec![] };
    let mut st = Stats::default();
    match check(&c, &mut st) {
        Some((kind, what, detail)) => vec![Violation { check: what.clone(), sig: format!("{what}|{kind}|"), detail, case: case.clone() }],
        None => vec![],
    }
}

pub fn props() -> Vec<PropInfo> {
    vec![PropInfo {
        id: "C17",
        level: "exploration",
        rule: "random acyclic three-sheet workbooks (core-language formulas with unqualified, qualified, quoted and missing-sheet references, ranges into other sheets, a workbook-scoped defined name over two sheets) followed by one rename (to names that look like references, booleans, functions, contain quotes, spaces or non-ASCII letters), move or duplicate of a random sheet; values keyed by permanent sheet id must be unchanged, the reference list of every formula must be the old one with the renamed sheet under its new name (operator skeleton unchanged), and a duplicated sheet must show its source's values cell by cell; shape key = (operation, size class)",
        assumptions: &["the generated formulas read neither sheet names nor formula text as text (no SHEET, CELL, FORMULATEXT, INDIRECT)", "numbers are compared to 12 significant digits (re-printing a formula may re-associate x+(y-z) and move the last bits)"],
        run,
        replay,
    }]
}
