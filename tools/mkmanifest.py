#!/usr/bin/env python3
"""Write /verif/MANIFEST.json from the table below (run by hand; output committed)."""
import json, os, subprocess

HERE = os.path.dirname(os.path.dirname(os.path.abspath(__file__)))

# id -> (engine, category, technique, level text, level note, design_ref)
CHECKS = {}

def add(pid, engine, category, technique, text, note):
    CHECKS[pid] = dict(engine=engine, category=category, technique=technique, text=text, note=note)

HIST_NOTE = ("Trusted base: the snapshot projection S (harness/src/snap.rs), the op language (ops.rs) and the 30-line history "
             "model HM; verdicts come from executions of the real UserModel built from /repo's working tree. Reach is bounded by "
             "the generators (8x6 window, 1-3 sheets, ~60 operation kinds). Open known findings are tolerated only by signature "
             "in the full workload; the clean-room workload tolerates nothing.")

add("C01", "history", "exploration", "runtime monitor: history + executable model (snapshot vector with cursor) over random op histories",
    "Every undo step of thousands of random histories is compared with the snapshot observed before the undone operation; held on everything explored, not a proof.",
    HIST_NOTE)

add("C02", "history", "exploration", "runtime monitor: history + executable model (cursor walks over the snapshot vector), redo expectations used only on verified lineages",
    "Every redo step whose lineage was verified step by step is compared with the snapshot that followed the original operation; new operations after partial undo must empty the redo list.",
    HIST_NOTE)
add("C03", "history", "exploration", "runtime monitor: differential comparison of two real models (primary vs. replica applying the flushed diff queue) under four flush policies",
    "After every flush the replica must accept the batch and its snapshot must equal the primary's; flush points are an explicit, replayable part of each history.",
    HIST_NOTE)
add("C04", "history", "fault_enumeration", "runtime monitor: invariant at a hook (state, undo/redo depths unchanged) around every call that returns Err, with invalid arguments generated from the current state",
    "Every failing call (46 invalid-argument classes plus naturally failing valid-looking calls) is bracketed by snapshots and undo/redo depth readings.",
    HIST_NOTE + " Undo/redo depths are read through the verif_hooks depth hook.")
add("C26", "history", "exploration", "runtime monitor: round-trip relation (struct equality + snapshot equality after evaluate) at random points of op histories",
    "to_bytes/from_bytes is executed at random points and at the end of every history; the reloaded workbook must be PartialEq-equal and evaluate to the same snapshot.",
    HIST_NOTE)
add("C27", "history", "exploration", "runtime monitor: structural invariant walker W over the live workbook at every quiescent point",
    "W (names, ids, grid bounds, index existence, column/row descriptor order, spill ownership, name scopes) runs after every API call, successful or not, including undo/redo.",
    HIST_NOTE)
add("C28", "history", "exploration", "runtime monitor: selection invariant walker V at every quiescent point of histories enriched with navigation and sheet operations",
    "V (selected sheet exists, cell inside range, both inside the grid) runs after every API call.",
    HIST_NOTE)

CODEC_NOTE = ("Trusted base: the harness's own reference codec for this property (stated in the evidence 'assumptions') and the engine's "
              "public parser used as a normaliser where noted. Verdicts come from executing the real functions built from /repo's working tree.")
add("C21", "codec", "exploration", "runtime monitor: exhaustive differential check of the real date functions against an independent days-from-civil reference",
    "Every serial 1..=2958465 is pushed through from_excel_date, date_to_serial_number and format_number (exhaustive in both tiers); the Model-level date functions and typed ISO dates run over boundaries plus a sample (quick) or every serial (thorough).",
    CODEC_NOTE)
add("C22", "codec", "exploration", "runtime monitor: round-trip identity observed on the real column/address/sheet-name codecs, bounded-exhaustive plus random",
    "All 16384 columns; boundary and random addresses in all four $-combinations through parse -> A1 print -> parse and parse -> R1C1 print -> parse; sheet names bounded-exhaustively over a tricky alphabet.",
    CODEC_NOTE)
add("C23", "codec", "exploration", "runtime monitor: exhaustive round trip of the function and error name tables in every language, plus an xlsx export/import leg",
    "The complete function table (exposed by the verif_hooks re-export) x 5 languages and the xlsx names, and all error kinds, are checked on every run (exhaustive).",
    CODEC_NOTE)
add("C34", "codec", "exploration", "runtime monitor: metamorphic relation (four cycles = identity, only $ and case change, same target cells) over all cursor positions and selections",
    "Random reference-bearing formulas in six language/locale pairs; every cursor position and every selection of short texts; four successive cycles each.",
    CODEC_NOTE)

add("C19", "codec", "exploration", "runtime monitor: three-valued reference recogniser (MUST / MUST-NOT / silent) against the real cell-input path, bounded-exhaustive over a numeric alphabet",
    "All strings up to length 4 (quick) or 5 (thorough) over the characters that matter, in six locales, typed into fresh cells of a real Model; stored type, value and format kind are compared with the recogniser's verdict.",
    CODEC_NOTE)
add("C20", "codec", "exploration", "runtime monitor: differential check of format_number against an independent decimal-string formatter",
    "Random (number, format, locale) triples concentrated on exact ties, one-ulp neighbours, 2^53, tiny and huge magnitudes; the reference works on decimal digits only.",
    CODEC_NOTE)

FORMULA_NOTE = ("Trusted base: the harness's formula language FL (fgen.rs) and its printer, the engine's public Node type for structural "
                "comparison, and (where stated) a reference evaluator written from the spreadsheet rules. Verdicts come from executing the real "
                "parser, printer and evaluator built from /repo's working tree.")
add("C09", "formula", "exploration", "runtime monitor: round-trip relation parse -> print (display / stored / xlsx form) -> parse observed on the real parser and printer, bounded-exhaustive over operator nestings",
    "All (outer, inner, side) operator classes with varied leaves in all 30 language/locale pairs plus random deeper trees; structural equality of the trees.",
    FORMULA_NOTE)

STRUCT_NOTE = ("Trusted base: the snapshot projection S, the reference-shift model RS (map_pos / expected_target in structural.rs) and the "
               "engine's parser used to read reference targets out of displayed formulas. Ranges the statement is silent about (lost edge, "
               "straddling a moved block) and formulas that transitively read such cells are not judged; counts are in the evidence.")
add("C12", "structure", "exploration", "runtime monitor: before/after snapshots compared through the reference-shift model RS for row/column insertion",
    "Every pre-existing cell fact must be found at its RS image; every reference must read the RS image of what it read; unaffected formulas keep their values.",
    STRUCT_NOTE)
add("C13", "structure", "exploration", "runtime monitor: before/after snapshots compared through RS for row/column deletion",
    "Cells outside the band at their RS image; references into the band become #REF!; formulas that (transitively) read no deleted cell keep their values.",
    STRUCT_NOTE)
add("C14", "structure", "exploration", "runtime monitor: metamorphic identity insert(k at p); delete(k at p) on full snapshots, premise checked on the intermediate state",
    "Full snapshot equality (contents, values, formula texts, styles, links, row/column sizes and styles) after the pair of edits.",
    STRUCT_NOTE)
add("C15", "structure", "exploration", "runtime monitor: before/after snapshots compared through the block-move permutation of RS, including row/column descriptors",
    "Cell facts and row/column sizes, styles and hidden flags at their permuted position; references of the classes the statement lists must follow their cells.",
    STRUCT_NOTE)

add("C29", "structure", "exploration", "runtime monitor: invariant over an attribute table read through public getters before and after every setter call",
    "Random setter sequences from hand-built multi-column descriptors; exactly the targeted attribute of the targeted lines may change, and it must take the requested value.",
    "Trusted base: the table reader (public getters plus the stored row height field) and the per-operation 'allowed change' list in c29.rs.")
add("C30", "structure", "exploration", "runtime monitor: reference map target -> Style compared with the engine's read-back after every assignment (late changes reveal aliasing)",
    "Random assignment sequences over the full style attribute space with equal styles meeting on purpose, interleaved with named-style creation, application and update.",
    "Trusted base: the expectation rules in c30.rs (row/column styles restyle existing cells; cells linked to a named style follow its updates).")

CRASH_NOTE = ("Trusted base: the panic hook / catch_unwind capture, the child-process driver and its bisection (crash.rs). Children run on an "
              "8 MiB stack. A watchdog firing is inconclusive unless it reproduces alone (C25 re-runs the case for 90 s).")
add("C11", "codec", "exploration", "runtime monitor: crash capture (panic hook, catch_unwind, child processes with exit-status classification and bisection) over hostile text workloads",
    "Random Unicode, mutated harness-printed formulas, mutated format codes x extreme numbers, all cursors of short texts and nesting series through lexer, parser, both input paths, completion, F4 cycling and format_number in 30 language/locale pairs.",
    CRASH_NOTE)
add("C25", "xlsx", "fault_enumeration", "runtime monitor: crash and hang capture in child processes over byte-, zip-, XML-element- and attribute-level mutants of real xlsx packages",
    "Each indexed mutant of the repository's own xlsx test files is imported, turned into a Model and evaluated in a child process; panics, aborts and reproducible timeouts are violations.",
    CRASH_NOTE)

add("C24", "xlsx", "exploration", "runtime monitor: round-trip relation export -> import observed on snapshots of API-built workbooks",
    "Workbooks built by random API histories are exported with save_xlsx_to_writer, imported with load_from_xlsx_bytes, evaluated and compared fact by fact on what the statement lists; a clean-room half avoids the triggers of the listed findings and tolerates nothing.",
    "Trusted base: the snapshot projection S restricted to the listed facts, with a 0.51 px tolerance for widths/heights. Malformed workbooks (C27) are skipped.")

RE_NOTE = ("Trusted base: the reference evaluator RE (harness/src/refeval.rs, ~500 lines, written from the spreadsheet rules; it reads the tree the engine's parser stored). "
           "RE answers 'no opinion' (counted, with reasons, in the evidence) where spreadsheets disagree or the engine documents a deliberate rule: 0^0 and 0^-n, text arguments and "
           "errors after the deciding value in AND/OR, non-numeric content behind references returned by IF/IFERROR, numeric look-alike text, scientific notation in number-to-text, "
           "comparisons decided by the 15-digit rule, hidden ROUND ties. A mismatch whose evaluation went through the trigger of a committed finding is attributed to that finding by tag.")
add("C06", "formula", "exploration", "runtime monitor: differential comparison of every computed value with an independent reference evaluator over random acyclic workbooks",
    "Random acyclic workbooks in the core formula language are evaluated by the engine and, recursively in its own order, by RE; every formula cell's value must agree (numbers to 1e-9 relative). Root causes are separated from downstream effects by re-evaluating each disagreeing cell over the engine's own input values.",
    RE_NOTE)
add("C05", "formula", "exploration", "runtime monitor: invariant at a hook (every formula cell recomputed by the reference evaluator from the values the engine currently holds) after every step of random edit histories, plus #CIRC! clauses on the static reference graph",
    "After every step of random UserModel histories (core-language formulas that may form cycles, constants, structural edits, paste, undo/redo) each formula cell must show the value RE computes from the current values of the cells it reads; #CIRC! may only appear on a cycle or next to a cell showing it, and must appear on every cycle whose edges are always evaluated and error-propagating.",
    RE_NOTE + " Cells on a static reference cycle are judged by the #CIRC! clauses only. Cycle clauses are skipped for workbooks with dynamic references.")
add("C08", "formula", "exploration", "runtime monitor: invariant at quiescent points (scan of every stored and shown number for NaN/infinity) after evaluation, after to_bytes/from_bytes and after xlsx import",
    "A sweep of every built-in function (enumerated through the verif_hooks re-export) with threshold arguments, ~120 calls that overflow by design in scalar and array form, overflowing arithmetic in scalar / array-literal / range / SEQUENCE context, typed numbers beyond the double range and xlsx files with NaN/inf/1E+999 in <v>; after each, every cell is scanned.",
    "Arguments of the generic sweep are kept below magnitudes that could become a gigantic size or loop bound (slow or memory-exhausting evaluations are not this property's subject; inputs that panic are counted and left to C11/C25). A case that does not finish in 20 s is abandoned and counted as inconclusive.")
add("C07", "formula", "exploration", "runtime monitor: differential comparison of the values of one set of inputs entered along eight routes (entry order, evaluation cadence, save-and-reload, repeated evaluation)",
    "The same inputs are entered in order, reversed, shuffled, with evaluation after every edit or once, with to_bytes/from_bytes in the middle or at the end, and evaluated twice; all routes must show identical values in every cell, spills included.",
    "Dynamic arrays are placed so that two arrays never compete for the same cells and no cycle closes through a spill (which array wins a collision depends on history in every spreadsheet); a spill blocked by plain content is generated. The exact signature of the listed finding is tolerated only for that replay's shape.")
add("C10", "formula", "exploration", "runtime monitor: differential comparison of twin models (one kept in English/en, one switching among 5 languages and 6 locales) fed the same abstract edits",
    "After every step the twins must agree on every value, on the R1C1 form of every parsed formula, on every stored formula text and on the defined names; the switching twin also re-enters formulas from their displayed text.",
    "Trusted base: the harness's formula printer FL per language/locale. The generated language has no locale-dependent function, so values must not change at all. Typed boolean constants are entered in English in both twins (re-entering displayed booleans belongs to C18).")
add("C17", "formula", "exploration", "runtime monitor: before/after relation around one sheet rename, move or duplicate on random three-sheet workbooks (values keyed by permanent sheet id, reference lists, duplicate vs source)",
    "Values of all cells must be unchanged, the reference list of every formula must be the old one with the renamed sheet under its new name, and a duplicated sheet must show its source's values cell by cell.",
    "The generated formulas read neither sheet names nor formula text as text. Operator shapes are compared without parentheses (re-printing drops the parentheses of x+(y+z): C09's pinned finding).")
add("C18", "codec", "exploration", "runtime monitor: metamorphic round-trip relation (display the content, type it back into the same cell) observed on content text, cell type, resolved style and value",
    "About 110 typed inputs of every shape plus booleans, errors and formulas printed in the cell's language are typed into plain and pre-formatted cells in 5 languages x 6 locales; the displayed content is typed back and nothing the statement lists may change.",
    "Displayed content = Model::get_localized_cell_content; values are compared to 15 significant digits. Inputs the engine refuses are not judged.")
add("C31", "history", "exploration", "runtime monitor: structural invariant walker over every dynamic-array anchor and spill cell at every quiescent point of random histories, with shape and elements recomputed by the harness for a family of formulas",
    "After every step of random UserModel histories the walker checks block ownership, #SPILL! exactly when the block the harness computes is occupied or off the grid, no stale or orphan spill cells, typed content never replaced by a spill, and shape/elements for SEQUENCE, range, range*k and TRANSPOSE formulas.",
    "Expected elements are computed from the values the engine shows for the source cells (numbers and blanks). Formulas whose source holds errors, overlaps their own block, or whose elements show #CIRC! (arrays reading each other: C05) are not judged on elements.")
add("C32", "formula", "exploration", "runtime monitor: before/after relations around one edit (language, locale, sheet rename/move/delete, to_bytes/from_bytes, xlsx round trip, name rename) on workbooks whose formulas use defined names",
    "Stored name formulas must be the expected ones (unchanged, or carrying the renamed sheet / name) and every judged cell must show the same value after the edit.",
    "The engine only accepts a reference, a range or a LAMBDA as a name's formula, which bounds the generator. After a sheet deletion, names scoped to or reading that sheet and the cells using them are not judged.")

NOT_YET = {
    "C16": "runtime monitoring applies (a before/after relation around cut/copy-paste over the snapshot, with the harness's RS-style reference mapping), but the monitor was not built in the time available; the paste operations are exercised only as steps of the history monitors (C01-C04, C26, C27), which do not decide this property. Not claimed.",
    "C33": "runtime monitoring applies (the structure engine's line mapping extended to link and conditional-format facts), but the monitor was not built in the time available; link and conditional-format facts are part of the snapshot used by C01-C04/C24/C26, which do not decide this property. Not claimed.",
}

def main():
    props = [json.loads(l) for l in open(os.path.join(HERE, "properties.jsonl"))]
    ids = [p["id"] for p in props]
    checks = []
    for pid in ids:
        if pid not in CHECKS:
            continue
        c = CHECKS[pid]
        checks.append({
            "property_id": pid,
            "quick_cmd": f"./check {pid} quick",
            "thorough_cmd": f"./check {pid} thorough",
            "evidence_file": f"/verif/evidence/{pid}.json",
            "replay_cmd_template": f"./check {pid} --replay {{path}}",
            "engine": c["engine"],
            "level_claimed": {"category": c["category"], "text": c["text"], "design_ref": f"DESIGN.md section 6, {pid}"},
            "level_note": c["note"],
            "technique": c["technique"],
        })
    na = []
    for pid in ids:
        if pid not in CHECKS:
            na.append({"property_id": pid, "reason": NOT_YET.get(pid, "monitor not built yet in this revision of /verif (planned, see DESIGN.md section 6)")})
    hooks = subprocess.run(["git", "-C", "/repo", "log", "--format=%h", "--grep=^verif hooks"], capture_output=True, text=True).stdout.split()
    man = {
        "version": 1,
        "setup_cmd": "./check setup",
        "hooks": {
            "guard": "cargo feature verif_hooks (ironcalc_base/verif_hooks, forwarded by ironcalc/verif_hooks)",
            "enable": "the harness crate depends on /repo/base and /repo/xlsx with features = [\"verif_hooks\"]",
            "baseline_off_cmd": "cd /repo && (cargo nextest run --workspace --no-fail-fast --offline || cargo test --workspace --no-fail-fast --offline)",
            "source_commits": hooks,
            "add_only": True,
        },
        "engines": [
            {"name": "history", "path": "harness/src/props/hist.rs, c31.rs", "serves_properties": ["C01", "C02", "C03", "C04", "C26", "C27", "C28", "C31"],
             "kind_free_text": "op histories through the real UserModel with snapshot, structure and selection monitors"},
            {"name": "codec", "path": "harness/src/props/c21.rs, c22.rs, c23.rs, c34.rs, c11.rs, c18.rs, c19.rs, c20.rs", "serves_properties": ["C11", "C18", "C19", "C20", "C21", "C22", "C23", "C34"],
             "kind_free_text": "text/number/date/name codecs driven exhaustively or bounded-exhaustively against independent reference codecs; crash capture"},
            {"name": "formula", "path": "harness/src/refeval.rs, harness/src/props/eval.rs (C05, C06), c07.rs, c08.rs, c09.rs, c10.rs, c17.rs, c32.rs", "serves_properties": ["C05", "C06", "C07", "C08", "C09", "C10", "C17", "C32"],
             "kind_free_text": "formula programs through the real parser/evaluator with a reference evaluator and metamorphic relations"},
            {"name": "structure", "path": "harness/src/props/structural.rs (C12-C15), c29.rs, c30.rs", "serves_properties": ["C12", "C13", "C14", "C15", "C29", "C30"],
             "kind_free_text": "structural and attribute edits against reference shift / attribute-table models"},
            {"name": "xlsx", "path": "harness/src/props/c24.rs, c25.rs", "serves_properties": ["C24", "C25"],
             "kind_free_text": "xlsx export/import round trips and package mutators with crash capture"},
        ],
        "checks": checks,
        "not_applicable": na,
        "notes": "All verdicts are taken by oracles observing executions of the real crates built from /repo's working tree (profile 'verdict': optimised, no debug assertions). known_findings.json lists open findings (reproduced on every run, tolerated only by signature) and fixed ones (re-checked on every run, suppress nothing).",
    }
    with open(os.path.join(HERE, "MANIFEST.json"), "w") as fh:
        json.dump(man, fh, indent=1)
    print(f"{len(checks)} checks, {len(na)} not yet claimed")

if __name__ == "__main__":
    main()
