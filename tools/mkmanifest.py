#!/usr/bin/env python3
"""Write /verif/MANIFEST.json from the table below (run by hand; output committed)."""
import json, os, subprocess

HERE = os.path.dirname(os.path.dirname(os.path.abspath(__file__)))

# id -> (engine, category, technique, level text, level note, design_ref)
CHECKS = {}

def add(pid, engine, category, technique, text, note):
    CHECKS[pid] = dict(engine=engine, category=category, technique=technique, text=text, note=note)

HIST_NOTE = ("Trusted base: the snapshot projection S (harness/src/snap.rs), the op language (ops.rs) and the 30-line history "
             "model HM; verdicts come from executions of the real UserModel built from /repo's working tree. Reach is bounded by "
             "the generators (8x6 window, 1-3 sheets, ~60 operation kinds). Open known findings are tolerated only by signature "
             "in the full workload; the clean-room workload tolerates nothing.")

add("C01", "history", "exploration", "runtime monitor: history + executable model (snapshot vector with cursor) over random op histories",
    "Every undo step of thousands of random histories is compared with the snapshot observed before the undone operation; held on everything explored, not a proof.",
    HIST_NOTE)

NOT_YET = {}

def main():
    props = [json.loads(l) for l in open(os.path.join(HERE, "properties.jsonl"))]
    ids = [p["id"] for p in props]
    checks = []
    for pid in ids:
        if pid not in CHECKS:
            continue
        c = CHECKS[pid]
        checks.append({
            "property_id": pid,
            "quick_cmd": f"./check {pid} quick",
            "thorough_cmd": f"./check {pid} thorough",
            "evidence_file": f"/verif/evidence/{pid}.json",
            "replay_cmd_template": f"./check {pid} --replay {{path}}",
            "engine": c["engine"],
            "level_claimed": {"category": c["category"], "text": c["text"], "design_ref": f"DESIGN.md section 6, {pid}"},
            "level_note": c["note"],
            "technique": c["technique"],
        })
    na = []
    for pid in ids:
        if pid not in CHECKS:
            na.append({"property_id": pid, "reason": NOT_YET.get(pid, "monitor not built yet in this revision of /verif (planned, see DESIGN.md section 6)")})
    hooks = subprocess.run(["git", "-C", "/repo", "log", "--format=%h", "--grep=^verif hooks"], capture_output=True, text=True).stdout.split()
    man = {
        "version": 1,
        "setup_cmd": "./check setup",
        "hooks": {
            "guard": "cargo feature verif_hooks (ironcalc_base/verif_hooks, forwarded by ironcalc/verif_hooks)",
            "enable": "the harness crate depends on /repo/base and /repo/xlsx with features = [\"verif_hooks\"]",
            "baseline_off_cmd": "cd /repo && (cargo nextest run --workspace --no-fail-fast --offline || cargo test --workspace --no-fail-fast --offline)",
            "source_commits": hooks,
            "add_only": True,
        },
        "engines": [
            {"name": "history", "path": "harness/src/props/hist.rs", "serves_properties": ["C01", "C02", "C03", "C04", "C26", "C27", "C28"],
             "kind_free_text": "op histories through the real UserModel with snapshot, structure and selection monitors"},
        ],
        "checks": checks,
        "not_applicable": na,
        "notes": "All verdicts are taken by oracles observing executions of the real crates built from /repo's working tree (profile 'verdict': optimised, no debug assertions). known_findings.json lists open findings (reproduced on every run, tolerated only by signature) and fixed ones (re-checked on every run, suppress nothing).",
    }
    with open(os.path.join(HERE, "MANIFEST.json"), "w") as fh:
        json.dump(man, fh, indent=1)
    print(f"{len(checks)} checks, {len(na)} not yet claimed")

if __name__ == "__main__":
    main()
