#!/usr/bin/env python3
"""Assemble /verif/known_findings.json and /verif/findings/<id>.json from the
specification below. Run by hand when a finding is added or repaired; the outputs
are committed. Checks only ever READ those files.

status "fixed": the replay must hold on the repaired tree (a fixed entry suppresses
nothing). status "open": the replay must still violate with a signature the entry
explains; the check then prints KNOWN-FINDING and tolerates signatures matching the
entry's `sigs`/`patterns` in the full workload, while the clean-room workload
(generator switches in `avoid` turned on) tolerates nothing.
"""
import json, os

HERE = os.path.dirname(os.path.dirname(os.path.abspath(__file__)))

def hist(which, nsheets, ops):
    return {"which": which, "nsheets": nsheets, "ops": ops}

def I(s, r, c, v): return {"Input": [s, r, c, v]}

def shrunk(fid):
    """case written earlier by work/mkfinding.sh (a shrunk witness of a real run)"""
    return json.load(open(os.path.join(HERE, "findings", fid + ".json")))["case"]

# two clean-room alternatives: (1) structural edits over plain data, (2) everything but structural edits
CLEAN_C01 = ("formulas,links,cf,paste,autofill,borders,edges,delete_sheet,named_style_update,update_name;"
             "structural,paste,autofill,cse_arrays,dyn_arrays,delete_sheet,edges,update_name,named_style_update,borders;"
             # (3) insert/move of rows and columns over acyclic formulas (each formula reads only rows above it)
             "cyclic,delete,cse_arrays,dyn_arrays,paste,autofill,links,cf,borders,edges,delete_sheet,named_style_update,update_name,names")
STRUCT = ["InsertRows", "InsertCols", "DeleteRows", "DeleteCols", "MoveRows", "MoveCols"]
CELLCATS = ["cell.content", "cell.fmt", "cell.value", "cell.struct", "cell.style", "cell.link"]

F = []

def fixed(id, prop, commit, what, case):
    F.append({"id": id, "property": prop, "status": "fixed", "commit": commit, "what": what,
              "line": f"fixed: property={prop} {commit} {what}", "case": case})

def open_(id, prop, what, case, patterns=None, sigs=None, avoid=None, attempts=None):
    F.append({"id": id, "property": prop, "status": "open", "what": what, "case": case,
              "patterns": patterns or [], "sigs": sigs or [], "avoid": avoid, "attempts": attempts})

# ---------------------------------------------------------------- C01
fixed("FX-C01-input-style", "C01", "8ef63d3",
      "undo of a typed input into an empty position kept the style the input implied (10% -> percent format stayed)",
      hist("C01", 1, [I(0, 2, 2, "10%"), "Undo"]))
fixed("FX-C01-hidden-size", "C01", "985d4d6",
      "undo of set_rows_height on a hidden row stored height 0",
      hist("C01", 1, [{"RowHidden": [0, 3, 3, True]}, {"RowHeight": [0, 2, 3, 40.5]}, "Undo"]))
fixed("FX-C01-move-reentry", "C01", "d6f926d",
      "undo of insert_rows turned the quote-prefixed string '123 into the number 123 (cells were re-entered as text when moved)",
      hist("C01", 1, [I(0, 4, 5, "'123"), {"InsertRows": [0, 4, 2]}, "Undo"]))
fixed("FX-C01-clear-contents", "C01", "80f92db",
      "undo of range_clear_contents left empty styled cells behind, visible after undoing an earlier column style",
      hist("C01", 1, [{"Style": [0, 1, 3, 1, 1048576, "alignment.vertical", "top"]},
                      {"ClearContents": [0, 1, 2, 2, 1]}, "Undo", "Undo"]))
fixed("FX-C01-array-undo", "C01", "9a722af",
      "undo of set_user_array_formula left empty cells with the array's style",
      hist("C01", 1, [{"ApplyNamedStyle": [0, 1, 1, 3, 2, "Percent"]},
                      {"ArrayFormula": [0, 6, 2, 3, 1, "=-1+B1"]}, "Undo"]))
fixed("FX-C01-delete-sheet", "C01", "e42fb75",
      "undo of delete_sheet lost the sheet's hyperlinks and conditional formats",
      hist("C01", 2, [{"SetInternalLink": [1, 5, 5, "Sheet1!A1"]}, {"DeleteSheet": 1}, "Undo"]))
open_("F-C01-structural", "C01",
      "undo of row/column insert/delete/move does not restore formulas, array formulas, links and conditional formats that interact with the edited band (e.g. #REF! stays after undoing a deletion)",
      hist("C01", 2, [I(1, 7, 6, "=(IF((1)>(Sheet2!B7),1,Sheet2!B7))&(MAX(B8:F8,$B8))"),
                      {"DeleteRows": [1, 8, 1]}, "Undo"]),
      patterns=[{"check": "undo", "keys": STRUCT,
                 "cats": CELLCATS + ["sheet.cf", "row.height", "row.hidden", "row.style",
                                     "col.width", "col.style", "col.hidden", "col.invalid"]},
                {"check": "undo-err", "keys": STRUCT, "cats": ["*"]}],
      avoid=CLEAN_C01)

fixed("FX-C01-rename-locale", "C01", "a12d421",
      "renaming a sheet under a comma-decimal locale re-read the stored formula =1.5 as 1, so undo could not bring it back",
      hist("C01", 1, ["NewSheet", I(1, 7, 5, "=1.5"), {"SetLocale": "de"}, {"RenameSheet": [1, "Data"]}, "Undo"]))
open_("F-C01-paste", "C01",
      "undo of paste/autofill does not restore hyperlinks of the target, nor values overwritten by a pasted array formula",
      hist("C01", 1, [I(0, 7, 1, "https://example.com"),
                      {"CopyPaste": [0, 6, 1, 2, 2, 0, 7, 3, False]}, "Undo"]),
      patterns=[{"check": "undo", "keys": ["CopyPaste", "AutoFillRows", "AutoFillCols", "PasteStyles", "PasteCsv"],
                 "cats": CELLCATS},
                {"check": "undo-err", "keys": ["CopyPaste", "AutoFillRows", "AutoFillCols", "PasteStyles", "PasteCsv"], "cats": ["*"]}],
      avoid=CLEAN_C01)
open_("F-C01-array", "C01",
      "undo of an array formula placed over cells read by other array/dynamic formulas leaves different values behind",
      hist("C01", 1, [{"ArrayFormula": [0, 2, 4, 3, 3, "=MAX(F3:F4,$C4)"]},
                      {"ArrayFormula": [0, 3, 2, 3, 3, "=COUNTA(B:B)"]}, "Undo"]),
      patterns=[{"check": "undo", "keys": ["ArrayFormula", "Input"], "cats": CELLCATS}],
      avoid=CLEAN_C01)

open_("F-C01-updatename", "C01",
      "undo of update_defined_name does not restore formulas that used the name when the update also changed its scope, or renamed it to a name formulas already used while it was undefined",
      hist("C01", 1, [{"NewName": ["other", None, "Sheet1!$A$5"]}, I(0, 8, 6, "=myname+(17)"),
                      {"UpdateName": ["other", None, "myname", None, "Sheet1!$B$1"]}, "Undo"]),
      patterns=[{"check": "undo", "keys": ["UpdateName"], "cats": ["cell.content", "cell.fmt", "cell.value"]}],
      avoid=CLEAN_C01)
open_("F-C01-dangling-names", "C01",
      "defined names that point into (or are scoped to) a deleted sheet are rewritten or dropped by later sheet operations and their undo",
      hist("C01", 2, [{"NewName": ["other", None, "Sheet1!$A$6"]}, {"DeleteSheet": 0},
                      {"DeleteName": ["other", None]}, "Undo"]),
      patterns=[{"check": "undo", "keys": ["*"], "cats": ["wb.names"]}],
      avoid=CLEAN_C01)
open_("F-C01-spill-residue", "C01",
      "a dynamic-array spill that was cleared leaves empty cells carrying the style they inherited at spill time; undoing the row/column style then no longer reaches them",
      hist("C01", 1, [{"Style": [0, 1, 1, 16384, 1, "num_fmt", "0%"]}, I(0, 1, 6, "=C3:F6*2"), "Undo", "Undo"]),
      patterns=[{"check": "undo", "keys": ["Style", "Border", "ApplyNamedStyle", "ClearFormatting", "ClearAll", "ClearContents"],
                 "cats": ["cell.style"]}],
      avoid=CLEAN_C01)

fixed("FX-C01-updatename-locale", "C01", "58764f6",
      "renaming a defined name under a comma-decimal locale re-read stored formulas (1.5 became 1), so undo could not bring them back",
      hist("C01", 2, [{"RenameSheet": [1, "x'y"]}, I(1, 3, 2, "=(myname+(TRUE))/(1.5)"), {"SetLocale": "de"},
                      {"NewName": ["myname", None, "'x''y'!$A$2"]},
                      {"UpdateName": ["myname", None, "renamed", None, "Sheet1!$B$2"]}, "Undo"]))
open_("F-C01-named-style-link", "C01",
      "cells restored by undo (e.g. of clear-all) lose their link to the named style, so undoing an update of that named style no longer reaches them",
      hist("C01", 1, [{"CreateNamedStyle": ["Mine", "{\"num_fmt\":\"general\",\"fill\":{},\"font\":{\"b\":true,\"sz\":12,\"name\":\"Inter\",\"family\":2,\"scheme\":\"minor\"},\"border\":{},\"quote_prefix\":false}", True]},
                      "NewSheet", {"ApplyNamedStyle": [1, 5, 3, 2, 3, "Mine"]},
                      {"UpdateNamedStyle": ["Mine", "Cool", "{\"num_fmt\":\"general\",\"fill\":{},\"font\":{\"i\":true,\"sz\":12,\"name\":\"Inter\",\"family\":2,\"scheme\":\"minor\"},\"border\":{},\"quote_prefix\":false}"]},
                      {"ClearAll": [1, 6, 3, 2, 3]}, "Undo", "Undo"]),
      patterns=[{"check": "undo", "keys": ["UpdateNamedStyle"], "cats": ["cell.style", "row.style", "col.style"]}],
      avoid=CLEAN_C01)

open_("F-C01-border", "C01",
      "undo of set_area_with_border does not restore the neighbouring cells whose borders the call adjusted",
      hist("C01", 1, ["NewSheet", {"Border": [1, 3, 1, 16384, 1,"{\"item\":{\"style\":\"thick\",\"color\":\"#FF0000\"},\"type\":\"Outer\"}"]},
                      {"Border": [1, 4, 4, 2, 1, "{\"item\":{\"style\":\"medium\",\"color\":\"#000000\"},\"type\":\"Top\"}"]}, "Undo", "Undo"]),
      patterns=[{"check": "undo", "keys": ["Border"], "cats": ["cell.style"]}],
      avoid=CLEAN_C01)

open_("F-C01-links-after-structural", "C01",
      "after row/column edits that moved a hyperlink next to an array formula, undoing an unrelated operation on the same cells drops the link",
      hist("C01", 1, [I(0, 6, 3, "a\nb"), {"InsertRows": [0, 3, 1]}, I(0, 7, 6, "https://example.com"),
                      {"ArrayFormula": [0, 6, 4, 3, 2, "=(2)*(D1)"]}, {"DeleteCols": [0, 1, 2]},
                      {"Style": [0, 1, 4, 1, 1048576, "font.strike", "false"]}, "Undo"]),
      patterns=[{"check": "undo", "keys": ["*"], "cats": ["cell.link"]}],
      avoid=CLEAN_C01)

# ---------------------------------------------------------------- C02
CLEAN_HIST = CLEAN_C01
ANYCELL = CELLCATS
open_("F-C02-cyclic", "C02",
      "formulas on an undetected cycle (an aggregate over a range that contains the formula or its spill) get evaluation-order dependent values, so redo shows other values than the original operation did",
      shrunk("F-C02-array"),
      patterns=[{"check": "redo", "keys": ["*"], "cats": ANYCELL}],
      avoid=CLEAN_HIST)

# ---------------------------------------------------------------- C03
open_("F-C03-cyclic", "C03",
      "formulas on an undetected cycle get evaluation-order dependent values, so a replica that applies the same diffs computes other values than the primary",
      shrunk("F-C03-cyclic"),
      patterns=[{"check": "replica-diverged", "keys": ["*"],
                 "cats": ANYCELL + ["row.hidden", "col.hidden", "col.style", "row.style", "sheet.cf"]}],
      avoid=CLEAN_HIST)
open_("F-C03-leaked-diff", "C03",
      "paste/autofill/clear operations that fail half-way (target overlaps an array formula) leave their diffs in the outgoing queue; the replica then fails to apply the batch",
      shrunk("F-C03-leaked-diff"),
      patterns=[{"check": "replica-apply", "keys": ["*"], "cats": ["*"]}],
      avoid=CLEAN_HIST)

# ---------------------------------------------------------------- C04
fixed("FX-C04-push-before-validate", "C04", "d0a1575",
      "set_timezone with an invalid timezone returned an error but recorded an undo entry and dropped the redo list",
      hist("C04", 1, [I(0, 1, 1, "1"), I(0, 1, 2, "2"), "Undo", {"SetTimezone": "Nowhere/None"}]))
fixed("FX-C04-frozen", "C04", "d0a1575",
      "set_frozen_rows_count(-1) returned an error but recorded an undo entry",
      hist("C04", 1, [I(0, 1, 1, "1"), {"FrozenRows": [0, -1]}]))
open_("F-C04-paste", "C04",
      "paste_from_clipboard (cut) pastes and then fails to clear a source range that contains part of an array formula",
      shrunk("F-C04-paste"),
      patterns=[{"check": "failed-state", "keys": ["CopyPaste", "AutoFillRows", "AutoFillCols", "PasteStyles", "PasteCsv"], "cats": ANYCELL + ["row.height"]},
                {"check": "failed-history", "keys": ["CopyPaste", "AutoFillRows", "AutoFillCols", "PasteStyles", "PasteCsv"], "cats": ["*"]}],
      avoid=CLEAN_HIST)
open_("F-C04-array-edge", "C04",
      "set_user_array_formula whose range leaves the grid writes the anchor and then fails",
      shrunk("F-C04-array"),
      patterns=[{"check": "failed-state", "keys": ["ArrayFormula"], "cats": ANYCELL}],
      avoid=CLEAN_HIST)
open_("F-C04-insert-array-edge", "C04",
      "insert_columns / insert_rows refused with 'Incorrect row or column' when a CSE array formula sits in the last columns/rows has already moved some of its cells (which ones depends on the iteration order of the sheet's row map, so the manifestation varies from process to process): seen by vp check 2 as InsertCols(0,4,1) over an array anchored at R5C16383",
      hist("C04", 1, [{"ArrayFormula": [0, 5, 16383, 1, 2, "=0"]}, {"InsertCols": [0, 4, 1]}]),
      patterns=[{"check": "failed-state", "keys": ["InsertCols", "InsertRows"], "cats": ANYCELL}],
      avoid=CLEAN_HIST, attempts=12)
open_("F-C04-hidden-edge", "C04",
      "hiding the last column/row hides it and then fails while looking for the next visible one past the grid",
      shrunk("F-C04-hidden-edge"),
      patterns=[{"check": "failed-state", "keys": ["ColHidden", "RowHidden"], "cats": ["col.hidden", "row.hidden"]}],
      avoid=CLEAN_HIST)
open_("F-C04-link", "C04",
      "set_cell_link on a cell inside an array formula attaches the link and then fails writing the label",
      shrunk("F-C04-link"),
      patterns=[{"check": "failed-state", "keys": ["SetLink", "SetInternalLink"], "cats": ["cell.link", "cell.style"]}],
      avoid=CLEAN_HIST)
open_("F-C04-style-range", "C04",
      "update_range_style over a full column fails half-way when the sheet holds a cell outside the grid (pushed there by an earlier insertion), leaving part of the range styled",
      shrunk("F-C04-style-range"),
      patterns=[{"check": "failed-state", "keys": ["Style", "Border", "ApplyNamedStyle", "ClearFormatting"], "cats": ["cell.style", "col.style", "row.style"]}],
      avoid=CLEAN_HIST)

# ---------------------------------------------------------------- C26
open_("F-C26-values", "C26",
      "a workbook whose stored values are stale or evaluation-order dependent (whole-row ranges after a row deletion, undetected cycles, array formulas spilling past the grid edge) evaluates differently after to_bytes/from_bytes",
      shrunk("F-C26-values"),
      patterns=[{"check": "reload-values", "keys": ["-"], "cats": ANYCELL}],
      avoid=CLEAN_HIST)
open_("F-C26-struct", "C26",
      "from_bytes(to_bytes()) is not struct-equal when a dynamic array at the last row tried to spill past the grid",
      shrunk("F-C26-struct"),
      patterns=[{"check": "reload-struct", "keys": ["-"], "cats": ["*"]}],
      avoid=CLEAN_HIST)

# ---------------------------------------------------------------- C27
SPILL = ["spill.anchor_missing", "spill.anchor_not_an_array_formula", "spill.not_covered", "spill.overlap"]
fixed("FX-C27-delete-cols-descriptor", "C27", "43fd844",
      "delete_columns left an empty column descriptor (min > max) when it deleted a whole descriptor",
      hist("C27", 1, [{"ColHidden": [0, 5, 5, True]}, {"InsertCols": [0, 1, 1]},
                      {"ColHidden": [0, 3, 3, False]}, {"DeleteCols": [0, 6, 1]}]))
open_("F-C27-array-overlap", "C27",
      "set_user_array_formula accepts a range that overlaps the spill cells of another array formula, leaving spill cells whose anchor does not cover them",
      shrunk("F-C27-array-overlap"),
      patterns=[{"check": "structure", "keys": ["ArrayFormula", "Input", "CopyPaste", "PasteCsv", "AutoFillRows", "AutoFillCols", "Undo", "Redo", "ClearContents", "ClearAll"], "cats": SPILL}],
      avoid=CLEAN_HIST)
open_("F-C27-spill-structural", "C27",
      "row/column insert/delete/move leave spill cells whose anchor moved, vanished or no longer covers them",
      shrunk("F-C27-spill-structural"),
      patterns=[{"check": "structure", "keys": STRUCT + ["Undo", "Redo"], "cats": SPILL}],
      avoid=CLEAN_HIST)
open_("F-C27-edge", "C27",
      "inserting rows/columns pushes row and column descriptors that sit at the last rows/columns past the grid",
      shrunk("F-C27-edge"),
      patterns=[{"check": "structure", "keys": ["InsertRows", "InsertCols", "Undo", "Redo", "MoveRows", "MoveCols"],
                 "cats": ["rows.bounds", "cols.bounds", "cell.outside_grid"]}],
      avoid=CLEAN_HIST)
open_("F-C27-names", "C27",
      "delete_sheet leaves the defined names scoped to the deleted sheet behind",
      shrunk("F-C27-names"),
      patterns=[{"check": "structure", "keys": ["*"], "cats": ["defined_name.scope_missing_sheet"]}],
      avoid=CLEAN_HIST)

# ---------------------------------------------------------------- C28
fixed("FX-C28-delete-sheet", "C28", "03fe317",
      "deleting a sheet before the selected last sheet left the selection pointing at a sheet index that no longer exists",
      hist("C28", 3, [{"SelectSheet": 2}, {"DeleteSheet": 0}]))
fixed("FX-C28-paging", "C28", "1556847",
      "page down after navigating to the last row (and page up with the selection scrolled out of view) put the selected row outside the grid",
      hist("C28", 1, [{"NavEdge": "ArrowDown"}, {"Key": "PageDown"}]))
fixed("FX-C28-paging-up", "C28", "1556847",
      "page up with the selection scrolled out of view put the selected row at -2",
      hist("C28", 1, [{"TopLeft": [4, 1]}, {"Key": "PageUp"}]))
fixed("FX-C28-area-selecting", "C28", "bade6a0",
      "on_area_selecting after extending the range to the left produced a range that did not contain the selected cell",
      hist("C28", 1, [{"SelectCell": [6, 6]}, {"ExpandSel": "ArrowLeft"}, {"AreaSelecting": [7, 1]}]))

# ---------------------------------------------------------------- C22 / C23
fixed("FX-C22-quote-name", "C22", "ee7553d",
      "sheet names containing characters such as ! \" # % & < = > @ ^ ~ or a leading dot were printed unquoted and did not read back (e.g. 'a!b')",
      {"kind": "sheet-name", "name": "a!b"})
fixed("FX-C22-quote-name-nbsp", "C22", "ee7553d",
      "a sheet name containing a no-break space was printed unquoted and did not read back",
      {"kind": "sheet-name", "name": "a b"})
fixed("FX-C23-nimpl", "C23", "8e18442",
      "the not-implemented error was written #N/IMPL, which no parser reads back as the error",
      {"error": "NIMPL", "language": "xlsx"})
fixed("FX-C23-es-xnpv", "C23", "0d3cead",
      "Spanish RECEIVED and XNPV shared the name VNA.NO.PER",
      {"function": "Xnpv", "language": "es"})
fixed("FX-C23-fr-tbilleq", "C23", "0d3cead",
      "French YIELDDISC and TBILLEQ shared the name TAUX.ESCOMPTE.R",
      {"function": "Tbilleq", "language": "fr"})
fixed("FX-C03-sheet-index", "C03", "d0cfeae",
      "after delete_sheet(0) followed by move_sheet the replica failed with 'Invalid worksheet index' (the DeleteSheet redo path left its selection past the end)",
      hist("C03", 3, [{"DeleteSheet": 0}, {"MoveSheet": [0, 1]}, "Flush"]))
fixed("FX-C28-redo-delete-first", "C28", "d0cfeae",
      "redo of deleting the first sheet with the last sheet selected left the selection past the end",
      hist("C28", 1, ["NewSheet", {"DeleteSheet": 0}, "Undo", {"SelectSheet": 1}, "Redo"]))

# ---------------------------------------------------------------- C19 / C20
fixed("FX-C19-trailing-group", "C19", "77b4316",
      "\"1,\" (a group separator followed by nothing) was stored as the number 1",
      {"text": "1,", "locale": "en"})
fixed("FX-C19-double-group", "C19", "77b4316",
      "\"1,,234\" was stored as the number 1234",
      {"text": "1,,234", "locale": "en"})
fixed("FX-C19-negative-currency-exponent", "C19", "433f9ca",
      "-$1e3 was stored as +1000",
      {"text": "-$1e3", "locale": "en"})
fixed("FX-C20-ties", "C20", "a1be664",
      "2.5 under the format 0 was displayed as 2 (ties were rounded to even on the binary expansion)",
      {"x": 2.5, "code": "0", "locale": "en", "expected": "3", "tie": True, "class": "tie-int0"})
fixed("FX-C20-below-one", "C20", "a1be664",
      "0.1534616551198007 under #,##0.0 was displayed as 0.1",
      {"x": 0.1534616551198007, "code": "#,##0.0", "locale": "en", "expected": "0.2", "tie": False, "class": "grouped"})
fixed("FX-C20-sci-renormalise", "C20", "a1be664",
      "99332.87055468571 under 0E+00 was displayed as 10E+04",
      {"x": 99332.87055468571, "code": "0E+00", "locale": "en", "expected": "1E+05", "tie": False, "class": "sci"})
fixed("FX-C20-sci-sign", "C20", "4a4bbf4",
      "2.675 under 0.000000E+00 was displayed with E-00",
      {"x": 2.675, "code": "0.000000E+00", "locale": "en", "expected": "2.675000E+00", "tie": False, "class": "sci"})
fixed("FX-C20-minus-sign", "C20", "dc35bd8",
      "-0.8219546932188211 under 00 was displayed as 01 (sign lost)",
      {"x": -0.8219546932188211, "code": "00", "locale": "en", "expected": "-01", "tie": False, "class": "int00"})
open_("F-C20-long", "C20",
      "numbers whose displayed digits reach beyond the 15th significant digit are shown with 16-17 significant digits instead of zeros (9007199254740992 under # shows ...992)",
      {"x": 9007199254740992.0, "code": "#", "locale": "es", "expected": "9007199254740990", "tie": False, "class": "long-hash"},
      patterns=[{"check": "format-text", "keys": ["long-hash", "long-int0", "long-int00", "long-grouped", "long-percent"], "cats": ["*"]}])

# ---------------------------------------------------------------- C09
FORMS = ["display", "internal", "xlsx"]
fixed("FX-C09-parentheses", "C09", "0bfc848",
      "(1&2)+3 was printed as 1&2+3, which parses to 1&(2+3)",
      {"text": "(1&2)+3", "language": "en", "locale": "en"})
fixed("FX-C09-percent", "C09", "0bfc848",
      "(1+2)% was printed as 1+2%",
      {"text": "(1+2)%", "language": "en", "locale": "en"})
fixed("FX-C09-unary-compare", "C09", "0bfc848",
      "-(1<2) was printed as -1<2",
      {"text": "-(1<2)", "language": "en", "locale": "en"})
fixed("FX-C09-localized-errors", "C09", "11a92f1",
      "error literals were displayed in English in every language, so (#¡VALOR!=1)=2 shown in Spanish did not parse back",
      {"text": "(#¡VALOR!=1)=2", "language": "es", "locale": "es"})
fixed("FX-C09-rangeop-left-reference", "C09", "68f1250",
      "the range operator printed (@B2):(1<>2) as @B2:(1<>2), which the lexer cannot read",
      {"text": "(@B2):(1<>2)", "language": "en", "locale": "en"})
open_("F-C09-plus-right", "C09",
      "x+(y+z) and x+(y-z) are printed without the parentheses (an existing test pins 1+(3+5) -> 1+3+5), so the tree that is read back associates to the left",
      {"text": "1+(3+5)", "language": "en", "locale": "en", "sig": "display|+>+:R|+(num,+)"},
      patterns=[{"check": f, "keys": ["+>+:R", "+>-:R"], "cats": ["*"]} for f in FORMS])
open_("F-C09-rangeop-lexer", "C09",
      "a range-operator node whose left side is @ of a missing-sheet reference or of a number (or whose right side is itself a range operation) prints to a text the lexer reads as a range token and rejects, e.g. (@Ghost!A1):SUM(A1:A3,7) -> @Ghost!A1:SUM(A1:A3,7)",
      {"text": "(@Ghost!A1):SUM(A1:A3,7)", "language": "en", "locale": "en", "sig": "display|rangeop>at:L|rangeop(at,call)"},
      patterns=[{"check": f, "keys": ["rangeop>at:L", "rangeop>rangeop:R"], "cats": ["*"]} for f in FORMS])

# ---------------------------------------------------------------- C11 / C25
fixed("FX-C11-deep-nesting", "C11", "a420563",
      "a formula with 3000 nested parentheses overflowed the stack of the recursive-descent parser and aborted the process",
      {"tier": "quick", "seed": 0, "index": 88})
fixed("FX-C11-date-overflow", "C11", "0379ea5",
      "=DATE(2020,1E+9,1) panicked with 'NaiveDate + Months out of range'",
      {"text": "=DATE(2020,1E+9,1)", "class": "extreme-call"})
fixed("FX-C11-date-functions-overflow", "C11", "b465393",
      "=EDATE(1,1E+9), =EOMONTH(1,-1E+9) and =WORKDAY(TRUE,-1E+308) panicked in chrono date arithmetic",
      {"text": "=EDATE(1,1E+9)", "class": "extreme-call"})
open_("F-C11-function-argument-panics", "C11",
      "several built-in functions panic on out-of-domain arguments instead of returning an error: =SUBSTITUTE(-0,2958466) and =XNPV(1E+308,{1,-1E+308;0,1E+308}) index out of bounds, =CHOOSEROWS(9007199254740993,-1E+308) index out of bounds, =DOLLAR(171,1E+15) 'Formatting argument out of range', =T.INV(1E-320,170) / =CRITBINOM(1E-320,-0,0.5) unwrap inside statrs, =WRAPROWS(\"a\",1E+100,1) capacity overflow",
      {"text": "=SUBSTITUTE(-0,2958466)", "class": "extreme-call"},
      patterns=[{"check": "crash", "keys": ["extreme-call"], "cats": ["*"]}])
IMPORT_FILES = ["xlsx/src/import/worksheets.rs", "xlsx/src/import/styles.rs", "xlsx/src/import/mod.rs", "xlsx/src/import/workbook.rs",
                "xlsx/src/import/conditional_formatting.rs", "xlsx/src/import/tables.rs", "xlsx/src/import/shared_strings.rs",
                "xlsx/src/import/metadata.rs", "xlsx/src/import/util.rs", "xlsx/src/import/colors.rs"]
open_("F-C25-import-index-panics", "C25",
      "the xlsx importer indexes vectors and maps with values taken from the file (first child of a required element, relationship ids, localSheetId, style indices): a package without <fonts>/<borders>/<sheets>, with a dangling relationship id or an out-of-range localSheetId panics instead of returning an error",
      {"base": "xlsx/tests/example.xlsx", "part": "styles.xml", "drop_element": "fonts"},
      sigs=["panic|xlsx/src/import/worksheets.rs|no entry found for key",
            "panic|xlsx/src/import/worksheets.rs|index out of bounds: the len is # but the index is #",
            "panic|xlsx/src/import/worksheets.rs|called `Option::unwrap()` on a `None` value",
            "panic|xlsx/src/import/styles.rs|index out of bounds: the len is # but the index is #",
            "panic|xlsx/src/import/mod.rs|index out of bounds: the len is # but the index is #",
            "panic|xlsx/src/import/workbook.rs|index out of bounds: the len is # but the index is #"])

# ---------------------------------------------------------------- C24
CLEAN_C24 = "names_in_formulas,borders,cf,row_hidden,row_sizes,row_style,sheet_colors,structural,cse_arrays,dyn_arrays,paste,autofill,links"
C24_CATS = ["wb.sheet", "row.height", "row.hidden", "row.style", "cell.content", "cell.fmt", "cell.value", "cell.struct",
            "cell.style", "cell.link", "col.style", "col.width", "col.hidden", "sheet.cf"]
C24_PAT = [{"check": "xlsx-diff", "keys": ["-"], "cats": C24_CATS}]
open_("F-C24-empty-row-attributes", "C24",
      "height, hidden flag and style of rows that contain no cells are not written to (or read back from) the xlsx file",
      {"nsheets": 1, "ops": [{"RowHeight": [0, 4, 5, 40.5]}]}, patterns=C24_PAT, avoid=CLEAN_C24)
open_("F-C24-theme-tab-colour", "C24",
      "a sheet tab colour given as a theme colour does not survive the xlsx round trip",
      {"nsheets": 1, "ops": [{"SheetColor": [0, "[4, 0.4]"]}]}, patterns=C24_PAT, avoid=CLEAN_C24)
open_("F-C24-name-implicit-intersection", "C24",
      "a formula that uses a (defined or undefined) name comes back from xlsx with @ in front of the name",
      {"nsheets": 1, "ops": [I(0, 5, 4, "=myname+1")]}, patterns=C24_PAT, avoid=CLEAN_C24)
open_("F-C24-borders", "C24",
      "cell borders set through set_area_with_border come back different from xlsx (neighbouring cells' border items)",
      {"nsheets": 2, "ops": [{"Border": [1, 3, 4, 2, 3, "{\"item\":{\"style\":\"dotted\",\"color\":\"#000000\"},\"type\":\"Bottom\"}"]}]},
      patterns=C24_PAT, avoid=CLEAN_C24)

# ---------------------------------------------------------------- C05 / C06 (reference evaluator)
def cells(nsheets, *cs): return {"nsheets": nsheets, "cells": [list(c) for c in cs]}

fixed("FX-C06-intermediate-overflow", "C06", "dfa06e7",
      "an overflow inside a larger expression was not an error: =(10^1000)>5 gave TRUE",
      cells(1, (0, 1, 1, "=(10^1000)>5"), (0, 2, 1, "=LEN(10^1000)")))
fixed("FX-C06-blank-reference-result", "C06", "c91a562",
      "a formula showing 0 because it returns a blank reference was read as blank by formulas evaluated before it",
      cells(2, (0, 2, 1, "=AVERAGE(Sheet2!E2:E3)"), (1, 2, 5, "=$D6"), (0, 4, 5, "=ISBLANK($E6)"), (0, 6, 5, "=E3")))
fixed("FX-C06-tiny-comparison", "C06", "d18b20c",
      "numbers below 2.2e-16 all compared equal: =1E-20>0 was FALSE",
      cells(1, (0, 1, 1, "=1E-20>0"), (0, 2, 1, "=1E-17=2E-17")))
RE_CATS = ["*"]
open_("F-C06-minmax-value-arg", "C06",
      "MIN and MAX ignore logical values and text typed directly into the argument list (=MAX(TRUE) is 0, =MIN(\"3\",5) is 5, =MIN(\"abc\",5) is 5 instead of #VALUE!)",
      cells(1, (0, 1, 1, "=MAX(TRUE)")),
      patterns=[{"check": "reference-value", "keys": ["minmax-value-arg"], "cats": RE_CATS}])
open_("F-C06-number-text-precision", "C06",
      "a number converted to text keeps 17 significant digits instead of 15 (=1/3&\"\" is 0.3333333333333333)",
      cells(1, (0, 1, 1, "=1/3&\"\"")),
      patterns=[{"check": "reference-value", "keys": ["number-text-precision"], "cats": RE_CATS}])
open_("F-C06-negative-zero-text", "C06",
      "negative zero converted to text is \"-0\" (=-A1&\"\" with A1 blank)",
      cells(1, (0, 1, 2, "=-A1&\"\"")),
      patterns=[{"check": "reference-value", "keys": ["negative-zero-text"], "cats": RE_CATS}])

def c05(nsheets, *ops): return {"nsheets": nsheets, "ops": list(ops)}
fixed("FX-C05-nonfinite-dependents", "C05", "ca1449f",
      "a dependent evaluated before a cell whose result is not finite saw the raw infinity instead of the #NUM! the cell shows",
      c05(2, I(1, 5, 5, "=SUM(ROUND(1,1000000),E1:E2)"), I(1, 4, 2, "=$E5/\"abd\"")))
open_("F-C05-absorbed-circ", "C05",
      "a reference cycle that passes through an error-absorbing function (IFERROR, COUNT, COUNTA, ISNUMBER, ISTEXT, ISBLANK) is not reported as #CIRC!: =COUNTA(A5:B5) typed into B5 shows 1, and cells on such a cycle keep mutually inconsistent values",
      c05(1, I(0, 5, 2, "=COUNTA(C2:D2,A5:B5)")),
      patterns=[{"check": "cycle-without-circ", "keys": ["absorbed-circ"], "cats": ["*"]}])
open_("F-C05-minmax-value-arg", "C05", "same defect as F-C06-minmax-value-arg, seen by the local consistency check",
      c05(1, I(0, 1, 1, "=MAX(TRUE)")),
      patterns=[{"check": "stale-or-inconsistent-value", "keys": ["minmax-value-arg"], "cats": ["*"]}])
open_("F-C05-number-text-precision", "C05", "same defect as F-C06-number-text-precision, seen by the local consistency check",
      c05(1, I(0, 1, 1, "=1/3&\"\"")),
      patterns=[{"check": "stale-or-inconsistent-value", "keys": ["number-text-precision"], "cats": ["*"]}])
open_("F-C05-negative-zero-text", "C05", "same defect as F-C06-negative-zero-text, seen by the local consistency check",
      c05(1, I(0, 1, 2, "=-A1&\"\"")),
      patterns=[{"check": "stale-or-inconsistent-value", "keys": ["negative-zero-text"], "cats": ["*"]}])

# ---------------------------------------------------------------- C08
def c08(text, array=False): return {"inputs": [[5, 3, text, array], [8, 3, "=C5", False], [9, 3, "=SUM(C5:D6)", False]]}
fixed("FX-C08-array-arithmetic", "C08", "dfa06e7", "={1E+308,2}*10 kept an infinite element in the spill", c08("={1E+308,2}*10"))
fixed("FX-C08-array-functions", "C08", "5a925c4", "=ACOS({3,2}) and =EXP({709,710,711}) stored NaN / inf in anchor and spill cells", c08("=EXP({709,710,711})"))
fixed("FX-C08-array-functions-cse", "C08", "5a925c4", "=ACOSH(A3:A4) entered as an array formula stored NaN", c08("=ACOSH(A3:A4)", True))
fixed("FX-C08-typed-number", "C08", "7cbbd28", "typing 1.8e308 created a number cell holding inf", c08("1.8e308"))
fixed("FX-C08-imported-number", "C08", "b1fce7b", "<v>NaN</v> in an xlsx file became a NaN number cell", {"file_numbers": ["NaN", "inf", "1E+999", "-Infinity"]})

# ---------------------------------------------------------------- C07
open_("F-C07-spill-cycle-first-evaluation", "C07",
      "a reference cycle that is closed through a spill (an array formula whose spill range covers a cell its own input depends on) is only reported as #CIRC! from the second evaluation on: evaluating twice changes values",
      {"nsheets": 1, "cells": [[0, 1, 3, "=-NOT(C6)"], [0, 6, 2, "=A1:B2*2"], [0, 2, 1, "=SUM(SEQUENCE(3))+C1:C2"]], "perm": [2, 1, 0]},
      sigs=["route-differs|evaluated-twice|arrays-in-grid"])

# ---------------------------------------------------------------- C18
fixed("FX-C18-localized-boolean", "C18", "c32ab20",
      "in a German model TRUE is shown as WAHR, and typing WAHR back produced text",
      {"language": "de", "locale": "en", "input": "TRUE", "format": None})
open_("F-C18-date-format-content", "C18",
      "the content shown for a number in a date/time formatted cell is the formatted date: typing it back loses the time fraction (1234.5 -> 1903-05-18 -> 1234), cannot be read at all for times (0:00 becomes text) and changes the format for numbers outside the date range",
      {"language": "en", "locale": "en", "input": "1234.5", "format": "yyyy-mm-dd"},
      patterns=[{"check": "re-entry", "keys": ["number-like:date-format"], "cats": ["*"]}])
open_("F-C18-scientific-content-sets-format", "C18",
      "a small or large number in a General cell is shown in scientific notation (0.000001234 -> 1.234e-6), and typing that back sets the 0.00E+00 format on the cell",
      {"language": "en", "locale": "en", "input": "0.000001234", "format": None},
      patterns=[{"check": "re-entry", "keys": ["number-like:other-format"], "cats": ["style"]}])

# ---------------------------------------------------------------- C32
open_("F-C32-rename-lambda-name", "C32",
      "renaming a defined name whose formula is a LAMBDA does not update the formulas that call it: =dbl(A1) shows #NAME? after dbl is renamed",
      {"names": [["dbl", None, "=LAMBDA(x,x*2.5)"]], "cells": [[0, 1, 1, "111"], [0, 5, 4, "=dbl(A1)+dbl(4)"]], "edit": {"RenameName": ["dbl", "renamed_name"]}},
      sigs=["value|RenameName:lambda|"])

def main():
    os.makedirs(os.path.join(HERE, "findings"), exist_ok=True)
    out = []
    for f in F:
        f = dict(f)
        case = f.pop("case")
        path = f"findings/{f['id']}.json"
        with open(os.path.join(HERE, path), "w") as fh:
            json.dump({"property": f["property"], "finding": f["id"], "what": f["what"], "case": case}, fh, indent=1)
        f["replay"] = path
        if f.get("avoid") is None:
            f.pop("avoid", None)
        out.append(f)
    with open(os.path.join(HERE, "known_findings.json"), "w") as fh:
        json.dump({"_comment": "generated by tools/mkknown.py; committed; never written by a check",
                   "findings": out}, fh, indent=1)
    print(f"{len(out)} findings written")

if __name__ == "__main__":
    main()
