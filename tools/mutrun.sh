#!/bin/bash
# usage: tools/mutrun.sh "<seeded-id>:<Cnn>[,<Cnn>...]" ...   — runs quick checks against patched copies, away from /repo and /verif
set -u
mkdir -p /tmp/vm
rsync -a --delete --exclude 'target*' --exclude replays --exclude evidence --exclude work /verif/ /tmp/vm/verif/
mkdir -p /tmp/vm/verif/evidence /tmp/vm/verif/replays
if [ ! -d /tmp/vm/repo ]; then git -C /repo worktree add --detach /tmp/vm/repo HEAD -q; fi
git -C /tmp/vm/repo checkout -q --detach $(git -C /repo rev-parse HEAD) && git -C /tmp/vm/repo checkout -q -- .
for spec in "$@"; do
  id=${spec%%:*}; props=${spec#*:}
  git -C /tmp/vm/repo checkout -q -- . 
  if ! git -C /tmp/vm/repo apply /verif/seeded/$id/patch.diff; then echo "### $id: patch does not apply"; continue; fi
  for p in ${props//,/ }; do
    echo "### mutant $id vs $p"
    (cd /tmp/vm/verif && VERIF_SEED=${VERIF_SEED:-0} VERIF_REPO=/tmp/vm/repo VERIF_DIR=/tmp/vm/verif VERIF_TARGET=/tmp/vm/target ./check $p quick 2>&1 | grep -v "^  \|KNOWN-FINDING\|^note:" | tail -5)
  done
done
git -C /tmp/vm/repo checkout -q -- .
